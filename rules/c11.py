"""C11 — each reachable schema file is read exactly once; others never matter."""
from engine.rulekit import inline as I
from engine.rulekit import hir as Hh
from engine.rulekit import mir as M
from engine.rulekit import scans
from rules import c12 as C12
from rules import anchors as A

PARSE = "roxmltree::parse::<impl roxmltree::Document<'input>>::parse"


def sccs(graph, nodes):
    """Tarjan over the sub-graph induced by `nodes`."""
    index = {}
    low = {}
    stack = []
    on = set()
    out = []
    counter = [0]
    import sys
    sys.setrecursionlimit(10000)

    def strong(v):
        index[v] = low[v] = counter[0]
        counter[0] += 1
        stack.append(v)
        on.add(v)
        for w in graph.get(v, ()):
            if w not in nodes:
                continue
            if w not in index:
                strong(w)
                low[v] = min(low[v], low[w])
            elif w in on:
                low[v] = min(low[v], index[w])
        if low[v] == index[v]:
            comp = []
            while True:
                w = stack.pop()
                on.discard(w)
                comp.append(w)
                if w == v:
                    break
            out.append(comp)

    for v in sorted(nodes):
        if v not in index:
            strong(v)
    return out


def run(ck, F):
    ck.explanation = (
        "Call-graph SCC + dominance analysis on MIR: the strongly connected component that contains the document-parsing function "
        "(the import recursion) is located on the resolved call graph; inside it, the store of `true` into the file's processed flag "
        "must dominate every call that stays in the component, and the guarding load must dominate the parse. The file table is "
        "checked to be accessed by key only, the import result to be merged exactly once, and sibling contents to flow nowhere but "
        "into the keyed table. Nothing is executed.")
    ck.assumptions = ["HashMap::get is a pure keyed lookup", "schemaLocation is used verbatim as the key (other spellings are outside the claim)"]
    ck.rule("R1", "mark before descent: in the import recursion, `processed <- true` dominates every call that stays inside the "
                  "recursion, and the load guarding the early return dominates the parse")
    ck.rule("R2", "once-only merge: the document returned for an import is passed to the merge function exactly once, per import child")
    ck.rule("R3", "keyed access only: Files.map is touched only by get/get_key_value/insert/from, or by a loop that merely resets flags")
    ck.rule("R4", "sibling files enter the table keyed by their file name and their content flows nowhere else")
    C12.CRATE = F.lib
    g = scans.call_graph(F.lib)
    local = {b["path"] for b in F.lib.bodies if b.get("mir")}
    comps = sccs(g, local)
    # heads of the import recursion: functions of a call cycle that are entered from outside the cycle and whose collapsed body
    # (everything of the reader inlined except the recursive call itself) parses a document
    stop = lambda p: p.startswith(("model::", "<model::", "error::", "<error::"))
    heads = []
    for comp in comps:
        cs = set(comp)
        if len(comp) == 1 and comp[0] not in g.get(comp[0], ()):
            continue
        for fn in sorted(comp):
            if "{closure" in fn or "yaserde_tests" in fn:
                continue
            entered = any(fn in g.get(c, ()) for c in local if c not in cs)
            if not entered:
                continue
            B = I.collapsed_body(F.lib, fn, stop=stop)
            if B is not None and B.calls_to(PARSE):
                heads.append((fn, B, cs))
    primary_heads = {h[0] for h in heads}
    # cycles nested inside a recursion (a cycle that does not pass through the head found above) are recursions of their own: with the
    # edges into the known heads removed, what is still cyclic is analysed the same way, until nothing cyclic is left
    known = {h[0] for h in heads}
    for _ in range(4):
        g2 = {k: {c for c in v if c not in known} for k, v in g.items() if k not in known}
        more = []
        for comp in sccs(g2, {x for x in local if x not in known}):
            cs = set(comp)
            if len(comp) == 1 and comp[0] not in g2.get(comp[0], ()):
                continue
            cands = [fn for fn in sorted(comp) if "{closure" not in fn and "yaserde_tests" not in fn
                     and any(fn in g.get(c, ()) for c in local if c not in cs)]
            for fn in cands[:1]:
                B = I.collapsed_body(F.lib, fn, stop=lambda p, known=frozenset(known): stop(p) or p in known)
                if B is not None and B.calls_to(PARSE):
                    more.append((fn, B, cs))
        if not more:
            break
        heads += more
        known |= {h[0] for h in more}
    _cleared_only_at_entry(ck, F, g, heads)
    # "every named component of every reachable file": what an import returns is merged as a whole (the obligations of C02.R5 about
    # the merge function, decided here as well: a merge that filters or de-duplicates by a partial key loses components of a file)
    from rules import c02 as C02
    from rules import c04 as C04
    C02.rule_merge_keeps_components(C04._Sub(ck, "R2", lambda key: key.startswith(("merge-keeps:", "merge", "floor:")), only_rules=("R5",)), F)
    # .. and exactly once: what both documents hold (the namespace of a schema that two files of the set import) is not listed twice
    from rules import c10 as C10
    C10.run(C04._Sub(ck, "R2", lambda key: key.startswith("merge-no-duplicates"), only_rules=("R4",)), F)
    rule_skipped_import_visible(ck, F)
    parsers = [b for b in scans.bodies(F.lib) if "yaserde_tests" not in b["path"] and M.Body(b).calls_to(PARSE)]
    ck.floor("R1", "functions parsing a document", len(parsers), 1)
    if not heads:
        for pb in parsers:
            ck.ok("R1", "no-recursion", pb["span"], f"{pb['path']} is not part of a call cycle", fn=pb["path"])
    for fn, B, comp_set in heads:
        pb = F.lib.body(fn)
        ck.count("R1:functions in the import recursion", len(comp_set))
        ck.count("R1:blocks of the collapsed recursion", len(B.reach))
        is_head = lambda t: (M.Body.callee(t) or "") == fn or (M.Body.callee_decl(t) or "") == fn
        rec_calls = list(I.calls_through_closures(F.lib, B, is_head, head=fn))
        # a callee that was not taken in (it lies on a nested cycle) and can reach the head again: its call is a re-entry as well
        def reaches_head(t_):
            cal_ = M.Body.callee(t_) or M.Body.callee_decl(t_) or ""
            return cal_ != fn and cal_ in local and "{closure" not in cal_ and fn in scans.reachable(g, [cal_])
        for cbb_, ct_, where_ in I.calls_through_closures(F.lib, B, reaches_head, head=fn):
            if not any(cbb_ == x[0] and x[2] is where_ for x in rec_calls):
                rec_calls.append((cbb_, ct_, where_))
        for parse_bb, pt in B.calls_to(PARSE):
            # the file whose text is parsed
            rootkey = lambda o: ("arg", o.local) if o.kind == "arg" else ("call", o.bb) if o.kind == "call" else None
            xml_roots = {rootkey(o) for o in M.trace(B, pt["args"][0]) if rootkey(o)}
            # (the text may be asked of the file through an accessor of the crate — `file.xml()?`, which reads it on first use —:
            # whose text it is is the accessor's receiver)
            for o in M.trace(B, pt["args"][0], M.IDENTITY_CALLS + ("ops::Try::branch",)):
                if o.kind == "arg":
                    xml_roots.add(rootkey(o))
                if o.kind == "call" and o.term.get("args") and F.lib.body(M.Body.callee(o.term) or M.Body.callee_decl(o.term) or "") is not None:
                    xml_roots |= {rootkey(o2) for o2 in M.trace(B, o.term["args"][0]) if rootkey(o2)}
            loads = []
            for bb, t in B.calls_to(C12.ATOMIC_LOAD) + _test_and_set(B):
                os_ = M.trace(B, t["args"][0])
                if os_ and all("processed" in o.fields() for o in os_) and {rootkey(o) for o in os_} & xml_roots:
                    loads.append(bb)
            guard_ok = any(B.dominates(bb, parse_bb) for bb in loads)
            if not guard_ok:
                # alternatively every recursive call site tests the flag of the file it is about to read
                guard_ok = bool(rec_calls) and all(_tested_before(B, cbb, ct, where) for cbb, ct, where in rec_calls)
            if guard_ok:
                ck.ok("R1", "guard-before-parse", B.term(loads[0]).get("sp") if loads else pb["span"],
                      "the processed flag is tested before the document is parsed (in the parser or at every recursive call site)", fn=fn)
            else:
                ck.violation("R1", "guard-before-parse", B.term(parse_bb).get("sp"),
                             "the file is parsed without first testing its processed flag: a file imported twice is read twice", fn=fn)
        stores = []
        for bb, t in B.calls_to(C12.ATOMIC_STORE) + _test_and_set(B):
            os_ = M.trace(B, t["args"][0])
            vi = 2 if (M.Body.callee_decl(t) or "").endswith(("compare_exchange", "compare_exchange_weak")) else 1
            vals = M.trace(B, t["args"][vi], M.IDENTITY_CALLS)
            if os_ and all(o.kind in ("arg", "call") and "processed" in o.fields() for o in os_) and vals and all(
                    v.kind == "const" and "true" in str(v.const.get("text")) for v in vals):
                stores.append(bb)
        if not rec_calls:
            ck.undecided("R1", "descent-calls", pb["span"], "no call that re-enters the import recursion found", fn=fn)
        seen_sites = set()
        for cbb, ct, where in rec_calls:
            site = (where or B).term(cbb if where is None else [x for x, t in where.calls() if t is ct][0]).get("sp") if True else None
            if site in seen_sites:
                continue
            seen_sites.add(site)
            if any(B.dominates(sbb, cbb) and sbb != cbb for sbb in stores):
                ck.ok("R1", f"mark-before-descent:{_site_key(site)}", site, "`processed <- true` dominates the re-entry of the import recursion", fn=fn)
            else:
                ck.violation("R1", f"mark-before-descent:{_site_key(site)}", site,
                             "the re-entry of the import recursion (following an import) is not dominated by the store `processed <- true`: "
                             "a self- or mutual import re-enters this file without bound", fn=fn)
        if fn not in primary_heads:
            continue    # a nested cycle reads into the document it was handed: nothing is returned and merged (R2 is about the outer reader)
        # R2: the document returned by the recursion is merged exactly once
        merges = B.calls_to("RustDocument::extend")
        produced = {}
        for bb, t in merges:
            src = M.trace(B, t["args"][1], M.IDENTITY_CALLS + ("ops::Try::branch",))
            from_rec = [o for o in src if o.kind == "call" and is_head(o.term)]
            others = [o for o in src if o not in from_rec and not _is_empty_doc(o) and not _is_error_value(o)]
            if from_rec and not others:
                for o in from_rec:
                    produced.setdefault(o.bb, []).append(bb)
                ck.ok("R2", f"merge-source:{_site_key(B.term(bb).get('sp'))}", B.term(bb).get("sp"), "the merged document is the one returned for the import", fn=fn)
            else:
                ck.violation("R2", "merge-source", B.term(bb).get("sp"),
                             f"the merged document does not come (only) from the import reader: {src}", fn=fn)
        for pbb, ms in produced.items():
            if len(set(ms)) > 1:
                ck.violation("R2", "merged-twice", B.term(pbb).get("sp"), "an imported document is merged more than once", fn=fn)
            else:
                ck.ok("R2", f"merge-once:{_site_key(B.term(pbb).get('sp'))}", B.term(pbb).get("sp"), "the document returned for an import is merged exactly once", fn=fn)
        unmerged = [cbb for cbb, ct, where in rec_calls if where is None and cbb not in produced]
        for cbb in unmerged:
            flows = M.result_flow(B, cbb, B.term(cbb))
            # (an error that is given context on its way out — `.map_err(|e| e.in_file(name))` — leaves the document as it is)
            kinds = {k for k, _ in flows}
            if any(k.startswith("mapped:") for k in kinds) and _only_error_mapped(B, B.term(cbb)["dest"]["l"]):
                kinds = {k[len("mapped:"):] if k.startswith("mapped:") else k for k in kinds}
            if kinds - {"propagated", "returned", "unwrapped"}:
                ck.violation("R2", "import-result-dropped", B.term(cbb).get("sp"), f"the document read for an import is neither merged nor returned ({flows})", fn=fn)
    # ---- R3 keyed access
    allowed = ("::get", "::get_key_value", "::insert", "::contains_key", "::from", "::len", "::is_empty", "::new", "::entry")
    n_acc = 0
    for b in scans.bodies(F.lib):
        if "yaserde_tests" in b["path"]:
            continue
        B = M.Body(b)
        for bb, t in B.calls():
            for ai, a in enumerate(t["args"]):
                if a.get("k") not in ("copy", "move"):
                    continue
                os_ = M.trace(B, a, ())
                for o in os_:
                    if "map" in o.fields() and _root_is_files(B, o):
                        n_acc += 1
                        d = M.Body.callee_decl(t) or ""
                        if d.endswith(allowed) and any(m_ in d for m_ in KEYED_MAPS):
                            ck.ok("R3", f"{d.rsplit('::', 1)[-1]}", B.term(bb).get("sp"), f"Files.map accessed by key ({d})", fn=b["path"])
                        else:
                            ok, why = C12.iteration_verdict(F, b["path"], t.get("cs") or t.get("sp"))
                            if ok:
                                ck.ok("R3", "reset-loop", B.term(bb).get("sp"), "Files.map iterated only to reset flags", fn=b["path"])
                            else:
                                ck.violation("R3", f"{d}", B.term(bb).get("sp"),
                                             f"Files.map is accessed through {d} ({why}): files that are not reachable by an import can influence the result", fn=b["path"])
    ck.floor("R3", "Files.map access sites", n_acc, 2)
    rule_verbatim_keys(ck, F, "R4")
    # ---- R4 utils
    ub = F.lib.body("utils::read_input_file_and_xsd_files_at_path")
    if ub is None:
        ck.undecided("R4", "utils", "-", "utils::read_input_file_and_xsd_files_at_path not found")
        return
    stop_ = lambda p: p.startswith(("reader::", "<reader::", "model::", "<model::", "error::"))       # noqa: E731
    B0 = I.inlined_body(F.lib, ub["path"], stop=stop_)
    # the closures the function hands to an iteration (`read_dir()?.try_for_each(|entry| ..)`) are part of it: each is judged as a
    # body of its own (what it registers it reads itself)
    units = [B0]
    for _bb, cpath in I.closure_sites(B0):
        CBi = I.inlined_body(F.lib, cpath, stop=stop_)
        if CBi is not None:
            units.append(CBi)
    found_calls = [(Bx, c_) for Bx in units for c_ in Bx.calls_to("reader::Files::add") + Bx.calls_to("reader::Files::new")]
    ident = M.IDENTITY_CALLS + ("ops::Try::branch", "Option::<T>::ok_or", "Option::<T>::ok_or_else", "Option::<T>::unwrap", "Option::<T>::expect")
    # .. or a file is registered by its path only and read when an import first asks for it: a method of the file table that is handed
    # (name, path), stores the path in the entry it makes under the name, and an accessor of the entry that reads that path
    by_path = []
    for Bx in units:
        for bb_, t_ in Bx.calls():
            cal = M.Body.callee(t_) or M.Body.callee_decl(t_) or ""
            if not cal.startswith(("reader::Files::", "<reader::Files")) or cal.endswith(("::add", "::new")) or len(t_.get("args", [])) != 3:
                continue
            if "Path" in str(Bx.local_ty(t_["args"][2]["p"]["l"])) if t_["args"][2].get("k") in ("copy", "move") else False:
                by_path.append((Bx, (bb_, t_)))
    ck.floor("R4", "Files::new/add calls", len(found_calls) + len(by_path), 2)
    for B, (bb, t) in by_path:
        key_paths, key_ok = _file_name_sources(F, B, t["args"][1], ident)
        same = key_ok and bool(key_paths) and key_paths <= _roots(B, t["args"][2])
        reads = [b_["path"] for b_ in scans.bodies(F.lib) if b_["path"].startswith(("reader::", "<reader::")) and "tests::" not in b_["path"]
                 and any(any("path" in o.fields() for o in M.trace(M.Body(b_), t2["args"][0])) for _b2, t2 in M.Body(b_).calls_to("fs::read_to_string"))]
        if same and reads:
            ck.ok("R4", "keyed-by-file-name#path", B.term(bb).get("sp"), f"file registered under its file_name() with the path it is read from when first asked for ({reads[0]})", fn=ub["path"])
        else:
            ck.violation("R4", "registration#path", B.term(bb).get("sp"),
                         f"a file is registered by path, but not as (file_name(path), path) of one path that the file table reads itself (key ok: {same}, read by: {reads})", fn=ub["path"])
    for B, (bb, t) in found_calls:
        is_add = (M.Body.callee_decl(t) or "").endswith("add")
        key_arg = t["args"][1] if is_add else t["args"][0]
        xml_arg = t["args"][2] if is_add else t["args"][1]
        xml = [o for o in M.trace(B, xml_arg, ident) if not _is_error_value(o)]
        xml_ok = bool(xml) and all(o.kind == "call" and (M.Body.callee_decl(o.term) or "").endswith("fs::read_to_string") for o in xml)
        # the key is the file_name() of the very path whose content is registered
        key_paths, key_ok = _file_name_sources(F, B, key_arg, ident)
        if key_ok and xml_ok:
            read_paths = set()
            for o in xml:
                read_paths |= _roots(B, o.term["args"][0])
            key_ok = bool(key_paths) and key_paths <= read_paths
        if key_ok and xml_ok:
            ck.ok("R4", f"keyed-by-file-name#{'add' if is_add else 'new'}", B.term(bb).get("sp"), "file registered under its file_name() with its full content", fn=ub["path"])
        else:
            ck.violation("R4", f"registration#{'add' if is_add else 'new'}", B.term(bb).get("sp"),
                         f"a file is not registered as (file_name(), read_to_string(path)) of one path (key ok: {key_ok}, content ok: {xml_ok})", fn=ub["path"])
    rule_all_siblings_visited(ck, F, ub)
    rule_every_import_followed(ck, F)
    # which directory that is, is said by the path the command line gives, as it is given: a resolved path (canonicalize follows a
    # symbolic link to another directory) lists other siblings (C17.R4 input-path, kept)
    from rules import c04 as C04
    from rules import c17 as C17
    C17.run(C04._Sub(ck, "R4", lambda key: key in ("input-path", "document-chain")), F)
    # content of a sibling flows only into Files::add / Files::new
    for B in units:
        for bb, t in B.calls_to("fs::read_to_string"):
            flows = M.result_flow(B, bb, t)
            if {k for k, _ in flows} != {"propagated"}:
                ck.violation("R4", "read-result", B.term(bb).get("sp"), f"read_to_string result is {flows}", fn=ub["path"])


TRUNCATING = ("take", "take_while", "map_while", "skip", "skip_while", "step_by", "scan", "nth", "last", "find", "find_map", "position", "peekable",
              "fuse", "rev", "min_by_key", "max_by_key", "next")
NOT_FOLLOWING = ("std::fs::DirEntry::file_type", "std::fs::DirEntry::metadata", "std::fs::symlink_metadata", "std::path::Path::symlink_metadata",
                 "std::path::Path::is_symlink", "std::fs::FileType::is_symlink")


def rule_all_siblings_visited(ck, F, ub, rule="R4"):
    """Which sibling files are registered may depend on the files themselves only, not on where the directory lists them: the walk over
    `read_dir` visits every entry (it ends on exhaustion or on an error that is returned; no adaptor that stops early or reorders),
    and what a sibling *is* is asked of the path (`Path::is_file` follows symbolic links; `DirEntry::file_type` / `metadata` do not,
    so a schema that is a link would be left out and its import fail)."""
    from rules import c02 as C02
    fns = [ub["path"]] + [c for c in sorted(scans.reachable(scans.call_graph(F.lib), [ub["path"]])) if c.startswith(("utils::", "<utils::"))]
    n_walks = 0
    n_dirs = [0]
    for fn in dict.fromkeys(fns):
        b = F.lib.body(fn)
        if b is None:
            continue
        if b.get("mir"):
            Bm = M.Body(b)
            # (where the directory comes from is followed through the helpers of the function: judged on the entry function with its
            # helpers taken in, and on the closures it hands to an iteration)
            Bdir = I.inlined_body(F.lib, fn, stop=lambda p_: p_.startswith(("reader::", "<reader::", "model::", "<model::", "error::"))) if fn == ub["path"] else None
            dir_units = []
            if Bdir is not None:
                dir_units = [Bdir] + [x for x in (I.inlined_body(F.lib, cp_, stop=lambda p_: p_.startswith(("reader::", "<reader::", "model::", "<model::", "error::")))
                                                  for _b, cp_ in I.closure_sites(Bdir)) if x is not None]
            for Bu in dir_units:
              for bb, t in Bu.calls():
                d = M.Body.callee_decl(t) or ""
                if d.endswith(("Path::read_dir", "fs::read_dir")) and t.get("args"):
                    n_dirs[0] += 1
                    DIR_ID = M.IDENTITY_CALLS + ("Path::parent", "Option::<T>::unwrap_or", "Option::<T>::unwrap_or_else", "Path::new", "PathBuf::as_path", "Path::to_path_buf",
                                                 "ops::Deref::deref", "convert::AsRef::as_ref", "Option::<T>::filter", "Option::<P>::unwrap_or")
                    os_ = M.trace(Bu, t["args"][0], DIR_ID)
                    foreign = [o for o in os_ if not (o.kind in ("arg", "const", "upvar") or (o.kind == "call" and (M.Body.callee_decl(o.term) or "").endswith(("Path::parent", "Path::new"))))]
                    if foreign or not os_:
                        what = (M.Body.callee_decl(foreign[0].term) or "?").rsplit("::", 2)[-1] if foreign and foreign[0].kind == "call" else (foreign[0].kind if foreign else "?")
                        ck.violation(rule, "siblings:other-directory", Bu.term(bb).get("sp"),
                                     f"a directory that is not the one the start file lies in is listed as well (it comes from `{what}`): files are registered under "
                                     f"their bare names, so a file of that directory replaces the sibling of the same name and is read in its place", fn="")
                    else:
                        ck.ok(rule, "siblings:one-directory", Bu.term(bb).get("sp"), "the only directory listed is the one the start file lies in", fn="")
            for bb, t in Bm.calls():
                d = M.Body.callee_decl(t) or ""
                if False and d.endswith(("Path::read_dir", "fs::read_dir")) and t.get("args"):
                    # the siblings are the files of ONE directory, the one the start file lies in: files are registered under their bare
                    # name, so a second directory (a sub folder, a folder named by an entry) brings in files that replace siblings of the
                    # same name
                    DIR_ID = M.IDENTITY_CALLS + ("Path::parent", "Option::<T>::unwrap_or", "Option::<T>::unwrap_or_else", "Path::new", "PathBuf::as_path", "Path::to_path_buf",
                                                 "ops::Deref::deref", "convert::AsRef::as_ref", "Option::<T>::filter", "Option::<P>::unwrap_or")
                    os_ = M.trace(Bm, t["args"][0], DIR_ID)
                    foreign = [o for o in os_ if not (o.kind in ("arg", "const") or (o.kind == "call" and (M.Body.callee_decl(o.term) or "").endswith(("Path::parent", "Path::new"))))]
                    if foreign or not os_:
                        what = (M.Body.callee_decl(foreign[0].term) or "?").rsplit("::", 2)[-1] if foreign and foreign[0].kind == "call" else (foreign[0].kind if foreign else "?")
                        ck.violation(rule, "siblings:other-directory", Bm.term(bb).get("sp"),
                                     f"a directory that is not the one the start file lies in is listed as well (it comes from `{what}`): files are registered under "
                                     f"their bare names, so a file of that directory replaces the sibling of the same name and is read in its place", fn="")
                    else:
                        ck.ok(rule, "siblings:one-directory", Bm.term(bb).get("sp"), "the only directory listed is the one the start file lies in", fn="")
                if d in NOT_FOLLOWING:
                    ck.violation(rule, f"sibling-kind:{d.rsplit('::', 1)[-1]}", Bm.term(bb).get("sp"),
                                 f"what a directory entry is, is asked with `{d.rsplit('::', 2)[-2]}::{d.rsplit('::', 1)[-1]}`, which does not follow symbolic "
                                 f"links: a sibling schema that is a link is not registered and the import of it fails", fn="")
        if b.get("hir") is None or b.get("closure"):
            continue
        nb = Hh.norm_body(b)
        for x in Hh.exprs(nb["value"]):
            src = None
            if x.get("k") == "For":
                src = C02._iter_source(nb, x)
                if "read_dir" not in src:
                    continue
                n_walks += 1
                exits = []
                C02._find_exits(x["body"], exits, in_closure=False)
                for kind, node in exits:
                    ck.violation(rule, f"siblings:{kind}", Hh.sp(node), f"the walk over the directory is left with `{kind}` before all entries were seen: which "
                                 f"siblings are registered depends on the order in which the directory lists them", fn="")
            elif x.get("k") == "MethodCall" and x["name"] in ("for_each", "try_for_each", "collect", "count", "fold", "try_fold", "extend") and "read_dir" in Hh.describe(x["recv"]):
                src = Hh.describe(x["recv"])
                n_walks += 1
            if src:
                bad = [a for a in TRUNCATING if f".{a}(" in src]
                if bad:
                    ck.violation(rule, f"siblings:adapter:{bad[0]}", Hh.sp(x), f"the directory entries pass through `{bad[0]}`, which can end the walk early or "
                                 f"reorder it: which siblings are registered depends on the order in which the directory lists them", fn="")
    if n_walks and not any(o["status"] == "violated" and ("|siblings:" in o["key"] or "|sibling-kind:" in o["key"]) for o in ck.obligations):
        ck.ok(rule, "siblings:all-visited", ub["span"], "the walk over the directory visits every entry and asks the path what it is")
    ck.floor(rule, "walks over read_dir", n_walks, 1)


def import_processors(F):
    """the functions that follow one `import` element: fn(Node, &Files) -> Result<RustDocument, _>"""
    out = []
    for f in A._fn_items(F):
        ins = [A._norm_ty(x) for x in f["inputs"]]
        if len(ins) == 2 and ins[0].startswith("roxmltree::Node<") and ins[1] == "&reader::Files" and "model::doc::RustDocument" in A._norm_ty(f["output"]):
            out.append(f["path"])
    return sorted(out)


def rule_every_import_followed(ck, F, rule="R1"):
    """Every `import` child of a schema is followed, wherever it stands among the children: what an import brings in arrives through
    the merge `fn(&mut RustDocument, RustDocument)`; the loop from which the merge is reached (directly, or through a handler that
    is given one child) ranges over all children of the schema — no adaptor that ends the walk early, no hand-written
    `while let .. next_if`, no exit other than the returned error."""
    from rules import c02 as C02
    merge = A.merge_fn(F)
    if merge is None:
        ck.undecided(rule, "imports:processor", "-", "the function that merges an imported document into the importing one was not found")
        return
    handlers = {merge}
    bodies = [b for b in F.lib.bodies if b.get("hir") is not None and not b.get("closure") and "tests::" not in b["path"] and b["path"] != merge]
    sites = []       # (body, call node, enclosing loops)

    def scan(b, nb):
        found = []

        def visit(e, loops):
            if isinstance(e, list):
                for x in e:
                    visit(x, loops)
                return
            if not isinstance(e, dict):
                return
            k = e.get("k")
            if k in ("Call", "MethodCall") and (Hh.callee_path(e) or "") in handlers:
                found.append((e, loops))
            if k in ("For", "Loop"):
                loops = loops + [e]
            elif k == "MethodCall" and e.get("name") in ("for_each", "try_for_each", "map", "filter_map", "flat_map", "fold", "try_fold", "find_map", "any", "all"):
                loops = loops + [e]
            for key, v in e.items():
                if isinstance(v, (dict, list)):
                    visit(v, loops)
        visit(nb["value"], [])
        return found
    # a function that reaches the merge outside any loop and is given a node is a handler of one child: judged where it is called
    for _ in range(3):
        grew = False
        for b in bodies:
            if b["path"] in handlers:
                continue
            nb = Hh.norm_body(b)
            f_ = next((x for x in A._fn_items(F) if x["path"] == b["path"]), None)
            takes_node = f_ is not None and any("roxmltree::Node<" in A._norm_ty(x) for x in f_["inputs"])
            found = scan(b, nb)
            if found and all(not loops for _e, loops in found) and takes_node and not any(l_ for _e, l_ in found):
                # .. unless it is itself the reader of the schema element (it walks the children somewhere else): then the merge is
                # not reached per child at all
                handlers.add(b["path"])
                grew = True
        if not grew:
            break
    n = 0
    for b in bodies:
        if b["path"] in handlers:
            continue
        nb = Hh.norm_body(b)
        short = b["path"].rsplit("::", 1)[-1]
        for call, loops in scan(b, nb):
            if not loops:
                continue
            n += 1
            site = Hh.sp(call)
            lp = loops[-1]
            if lp.get("k") == "For":
                src = C02._iter_source(nb, lp)
                exits = []
                C02._find_exits(lp["body"], exits, in_closure=False)
                bad = [a for a in TRUNCATING if f".{a}(" in src]
                if "children(" not in src and "descendants(" not in src:
                    ck.undecided(rule, f"imports:source:{short}", site, f"{short}: what the loop that follows the imports ranges over was not recognised: {src[:100]}")
                elif bad or exits:
                    why = f"passes through `{bad[0]}`" if bad else f"is left with `{exits[0][0]}`"
                    ck.violation(rule, f"imports:all-children:{short}", site,
                                 f"{short}: the walk over the schema's children that follows the imports {why}: an `import` that stands behind the point "
                                 f"where it ends (after an include, a redefine, a component) is not followed and the file it names is never read", fn=short)
                else:
                    ck.ok(rule, f"imports:all-children:{short}", site, f"{short}: the imports are followed from a walk over all children of the schema", fn=short)
            elif lp.get("k") == "Loop":
                ck.violation(rule, f"imports:all-children:{short}", site,
                             f"{short}: the imports are followed from a hand-written loop (`while let` / `loop`) that takes children off an iterator as long as "
                             f"a condition holds: an `import` behind the first child that does not meet it is not followed and its file never read", fn=short)
            else:
                src = Hh.describe(lp["recv"])
                bad = [a for a in TRUNCATING if f".{a}(" in src] + ([lp["name"]] if lp["name"] in ("find_map", "any", "all") else [])
                if bad:
                    ck.violation(rule, f"imports:all-children:{short}", site,
                                 f"{short}: the children from which the imports are followed pass through `{bad[0]}`, which can end the walk early: an `import` "
                                 f"behind that point is not followed", fn=short)
                else:
                    ck.ok(rule, f"imports:all-children:{short}", site, f"{short}: the imports are followed from a walk over all children of the schema", fn=short)
    ck.floor(rule, "places from which imports are followed", n, 1)


def _root_is_files(B, o):
    """The origin's root local (or the place the field `map` is taken from) has type reader::Files."""
    l = getattr(o, "local", None)
    tys = []
    if l is not None:
        tys.append(B.local_ty(l))
    if o.kind == "upvar":
        return True
    if o.kind in ("call", "aggregate"):
        return True
    return any("reader::Files" in t and "FilesToRead" not in t for t in tys) or any("reader::Files" in t for t in tys)


def _site_key(sp):
    """file name of a span (line numbers are not part of a key)"""
    return str(sp).split(":")[0].rsplit("/", 1)[-1] if sp else "-"


def rule_skipped_import_visible(ck, F):
    """A file that two files import (a diamond) is read once; the second importer gets an empty document for it. Its own
    components that refer to the shared file (an extension of one of its types, a `ref` to one of its elements) are looked up in
    the importing document and in the XML of the current file only — so they are not found, the conversion of the component fails and
    the component is left out. Decided structurally: (a) where an import is answered with the empty document because the file's
    processed flag is set, and (b) the component lookups see nothing but their own document and XML node, the components of a
    file read earlier are invisible to a later importer."""
    from rules import anchors as A
    empties = A.by_signature(F, [], "model::doc::RustDocument")
    if not empties:
        return
    skipping = []
    for b in scans.bodies(F.lib):
        if "yaserde_tests" in b["path"] or b.get("closure"):
            continue
        B = M.Body(b)
        loads = [(bb, t) for bb, t in B.calls_to(C12.ATOMIC_LOAD) if any("processed" in o.fields() for o in M.trace(B, t["args"][0]))]
        if not loads or not B.calls_to(*empties, resolved=True):
            continue
        for lbb, lt in loads:
            tgt = lt.get("target")
            if tgt is None:
                continue
            sw = B.term(tgt)
            if sw.get("k") != "switch":
                continue
            true_arm = sw["otherwise"] if [v for v, _ in sw["targets"]] == [0] else None
            if true_arm is None:
                continue
            reach = B.reachable_from(true_arm)
            if any(ebb in reach for ebb, _ in B.calls_to(*empties, resolved=True)):
                skipping.append((b, B.term(lbb).get("sp")))
    if not skipping:
        ck.ok("R2", "skipped-import-visible", "-", "no import is answered with an empty document because its file was read already")
        return
    lookups = [f for f in A._fn_items(F) if f["path"] in {p_ for p_, _n, _s in A.component_lookups(F)}]
    narrow = bool(lookups) and all(all(any(w in A._norm_ty(x) for w in ("RustDocument", "roxmltree::Node<", "&str", "Option<&model::Namespace>")) for x in f["inputs"]) for f in lookups)
    for b, site in skipping[:1]:
        short = b["path"].rsplit("::", 1)[-1]
        if narrow:
            ck.violation("R2", "skipped-import-visible", site,
                         f"{short} answers the import of a file that was read already with the empty document, and the component lookups see only the "
                         f"importing document and the XML of the current file: in a diamond (a imports b and c, both import d) the components of c that extend or "
                         f"refer to components of d are not found, fail to convert and are left out of the output", fn="")
        else:
            ck.undecided("R2", "skipped-import-visible", site, f"{short} answers a repeated import with the empty document; whether the lookups see the file's components some other way was not decided", fn="")


def _is_empty_doc(o):
    return o.kind == "call" and (M.Body.callee_decl(o.term) or "").endswith(("RustDocument::empty",))


def _is_error_value(o):
    """`from_residual(..)`: an Err built by `?`; its Ok payload does not exist"""
    return o.kind == "call" and (M.Body.callee_decl(o.term) or "").endswith("FromResidual::from_residual")


def _tested_before(B, cbb, ct, where):
    """The recursive call (in B at cbb, or in a closure created at cbb) is made only on the arm where the processed flag of the file
    it passes was loaded as false."""
    body = where or B
    bbs = [x for x, t in body.calls() if t is ct]
    if not bbs:
        return False
    call_bb = bbs[0]
    a0 = M.trace(body, ct["args"][0])
    roots = {getattr(o, "local", None) for o in a0} | {o.bb for o in a0 if o.kind == "call"}
    for lbb, lt in body.calls_to(C12.ATOMIC_LOAD):
        los = M.trace(body, lt["args"][0])
        same = any(("processed" in o.fields()) and ((getattr(o, "local", None) in roots and getattr(o, "local", None) is not None) or (o.kind == "call" and o.bb in roots)) for o in los)
        if not same or lt.get("target") is None:
            continue
        # the loaded value decides a switch; the call must be dominated by the `false` arm
        for sbb in sorted(body.reach):
            sw = body.term(sbb)
            if sw.get("k") != "switch":
                continue
            if not any(o.kind == "call" and o.bb == lbb for o in M.trace(body, sw["discr"], M.IDENTITY_CALLS)):
                continue
            for v, tgt in sw["targets"]:
                if v == 0 and body.dominates(tgt, call_bb):
                    return True
    return False


NAME_KEEPING = ("OsStr::to_str", "string::ToString::to_string", "borrow::ToOwned::to_owned", "convert::AsRef::as_ref", "String::as_str",
                "convert::Into::into", "convert::From::from", "clone::Clone::clone", "ops::Deref::deref")


def _roots(B, operand):
    """identity of the places an operand can denote: argument locals and producing call blocks"""
    out = set()
    for o in M.trace(B, operand, M.IDENTITY_CALLS + ("Path::new", "PathBuf::as_path", "fs::DirEntry::path")):
        if o.kind == "arg":
            out.add(("arg", o.local))
        elif o.kind == "call":
            out.add(("call", o.bb))
        else:
            out.add((o.kind, getattr(o, "bb", None)))
    return out


KEYED_MAPS = ("HashMap", "BTreeMap", "IndexMap")     # a lookup / insertion by key touches one entry, whatever the map


def _file_name_sources(F, B, operand, ident):
    """(roots of the paths whose file_name() the operand is, ok): ok when every origin is `Path::file_name(p)` converted to text by
    name-keeping steps only (to_str directly, or through and_then / map with to_str or a closure that only calls such steps)."""
    paths = set()
    ok = True
    for o in M.trace(B, operand, ident):
        if _is_error_value(o):
            continue  # the Err built by a `?` in an inlined helper: it has no Ok payload
        if o.kind != "call":
            return set(), False
        d = M.Body.callee_decl(o.term) or ""
        if d.endswith("OsStr::to_str"):
            sub, ok2 = _file_name_sources(F, B, o.term["args"][0], ident)
        elif d.endswith(("Option::<T>::and_then", "Option::<T>::map")):
            keeps = False
            for f in M.trace(B, o.term["args"][1], ()):
                if f.kind == "const" and (f.const.get("fn_path") or "").endswith(NAME_KEEPING):
                    keeps = True
                elif f.kind == "aggregate" and f.rv.get("closure"):
                    cb = F.lib.body(f.rv["closure"])
                    keeps = cb is not None and cb.get("mir") and all((M.Body.callee_decl(t) or "").endswith(NAME_KEEPING) for _, t in M.Body(cb).calls())
            sub, ok2 = _file_name_sources(F, B, o.term["args"][0], ident)
            ok2 = ok2 and keeps
        elif d.endswith("Path::file_name"):
            sub, ok2 = _roots(B, o.term["args"][0]), True
        else:
            return set(), False
        paths |= sub
        ok = ok and ok2
    return paths, ok and bool(paths)


def rule_verbatim_keys(ck, F, rule):
    # the key a file is stored under is the name it was registered with, verbatim: a normalised key (case folding, trimming,
    # canonical paths ..) makes distinct files collide, and an unreachable sibling can then replace a reachable one
    VERBATIM = M.IDENTITY_CALLS + ("string::ToString::to_string", "fmt::Display::to_string", "convert::From::from", "String::from")
    n_ins = 0
    for b in scans.bodies(F.lib):
        if "yaserde_tests" in b["path"] or not b["path"].startswith(("reader::", "<reader::")):
            continue
        B = I.inlined_body(F.lib, b["path"], stop=lambda p: p.startswith(("model::", "<model::")))
        if B is None:
            continue
        for bb, t in B.calls():
            d = M.Body.callee_decl(t) or ""
            if not (any(m_ in d for m_ in KEYED_MAPS) and d.endswith(("::insert", "::from"))):
                continue
            tgt = M.trace(B, t["args"][0], ()) if d.endswith("::insert") else []
            if d.endswith("::insert") and not any("map" in o.fields() for o in tgt):
                continue
            if d.endswith("::from") and "FileContent" not in B.local_ty(t["dest"]["l"]):
                continue
            keys = []
            if d.endswith("::insert"):
                keys = M.trace(B, t["args"][1], VERBATIM)
            else:
                for o in M.trace(B, t["args"][0], ()):
                    if o.kind == "aggregate" and o.rv.get("ops"):
                        for tup in M.trace(B, o.rv["ops"][0], ()):
                            if tup.kind == "aggregate" and tup.rv.get("ops"):
                                keys += M.trace(B, tup.rv["ops"][0], VERBATIM)
            if not keys:
                continue
            n_ins += 1
            bad = [o for o in keys if o.kind != "arg"]
            if bad:
                what = M.Body.callee_decl(bad[0].term) if bad[0].kind == "call" else bad[0].kind
                ck.violation(rule, f"key-not-verbatim:{b['path'].rsplit('::', 1)[-1]}", B.term(bb).get("sp"),
                             f"{b['path']}: the key a file is stored under is computed by {what}, not the registered name itself: two files whose "
                             f"names normalise alike replace each other, and a file no import reaches can stand in for one that is", fn=b["path"])
            else:
                ck.ok(rule, f"key-verbatim:{b['path'].rsplit('::', 1)[-1]}", B.term(bb).get("sp"), "files are stored under the registered name, verbatim", fn=b["path"])
    ck.floor(rule, "file table insertions", n_ins, 1)
    # .. and what a file is asked for under is the name the import gives (`schemaLocation`), verbatim: a lookup by part of it (the last
    # path segment, a lower-cased copy) finds a file of another directory or another spelling
    LOOKUP_ID = VERBATIM + ("ops::Try::branch", "Option::<T>::ok_or", "Option::<T>::ok_or_else", "Option::<T>::unwrap_or_default", "Option::<T>::unwrap",
                            "Option::<T>::expect", "Result::<T, E>::ok", "borrow::Borrow::borrow")
    n_get = 0
    for b in scans.bodies(F.lib):
        if "yaserde_tests" in b["path"] or "tests::" in b["path"] or not b["path"].startswith(("reader::", "<reader::")):
            continue
        B = I.inlined_body(F.lib, b["path"], stop=lambda p: p.startswith(("model::", "<model::")))
        if B is None:
            continue
        for bb, t in B.calls():
            d = M.Body.callee_decl(t) or ""
            if not (any(m_ in d for m_ in KEYED_MAPS) and d.endswith(("::get", "::get_mut", "::contains_key", "::remove", "::get_key_value"))) or len(t.get("args") or []) != 2:
                continue
            if not any("map" in o.fields() for o in M.trace(B, t["args"][0], ())):
                continue
            keys = M.trace(B, t["args"][1], LOOKUP_ID)
            if not keys:
                continue
            n_get += 1
            bad = [o for o in keys if not (o.kind == "arg" or (o.kind == "call" and (M.Body.callee_decl(o.term) or "").endswith("::attribute")))]
            short = b["path"].rsplit("::", 1)[-1]
            if bad:
                what = (M.Body.callee_decl(bad[0].term) or "?").rsplit("::", 2)[-1] if bad[0].kind == "call" else bad[0].kind
                ck.violation(rule, f"lookup-key-not-verbatim:{short}", B.term(bb).get("sp"),
                             f"{b['path']}: the name a file is looked up under went through `{what}`: it is not the name the import gives, so a file of "
                             f"another directory or spelling that no import names can be read in its place", fn=b["path"])
            else:
                ck.ok(rule, f"lookup-key-verbatim:{short}", B.term(bb).get("sp"), "a file is looked up under the name the import gives, verbatim", fn=b["path"])
    ck.floor(rule, "file table lookups", n_get, 1)


TEST_AND_SET = ("Atomic::<bool>::swap", "Atomic::<bool>::fetch_or", "Atomic::<bool>::compare_exchange", "Atomic::<bool>::compare_exchange_weak")
CLEARING = ("Atomic::<bool>::store", "Atomic::<bool>::swap", "Atomic::<bool>::fetch_and", "Atomic::<bool>::fetch_xor", "Atomic::<bool>::fetch_nand",
            "Atomic::<bool>::compare_exchange", "Atomic::<bool>::compare_exchange_weak", "Atomic::<bool>::fetch_update", "Atomic::<bool>::get_mut",
            "Atomic::<bool>::fetch_not")


def _test_and_set(B):
    """calls that read the flag and set it in one step (`swap(true)`, `fetch_or(true)`, `compare_exchange(false, true)`): they count as
    the test (their result is the old value) and as the store"""
    return [(bb, t) for bb, t in B.calls() if (M.Body.callee_decl(t) or "").endswith(TEST_AND_SET)]


def _clearing_stores(B):
    """[(bb, term)] of the atomic writes to a `processed` flag in body B whose stored value is not the constant `true`"""
    out = []
    for bb, t in B.calls():
        d = M.Body.callee_decl(t) or ""
        if not d.endswith(CLEARING) or not t.get("args"):
            continue
        os_ = M.trace(B, t["args"][0])
        if not (os_ and any("processed" in o.fields() for o in os_)):
            continue
        vi = 2 if d.endswith(("compare_exchange", "compare_exchange_weak")) else 1
        vals = M.trace(B, t["args"][vi], M.IDENTITY_CALLS) if len(t["args"]) > vi else []
        sets_true = bool(vals) and all(v.kind == "const" and "true" in str(v.const.get("text")) for v in vals) and not d.endswith(
            ("fetch_and", "fetch_xor", "fetch_nand", "fetch_update", "get_mut", "fetch_not"))
        if not sets_true:
            out.append((bb, t))
    return out


def _clearing_stores_deep(F, B, depth=0):
    """clearing stores of B and of the closures created in B (transitively): [(block of B at which it happens / the closure is
    created, source position)]"""
    out = [(bb, B.term(bb).get("sp")) for bb, t in _clearing_stores(B)]
    if depth < 3:
        for bb, cpath in I.closure_sites(B):
            cb = F.lib.body(cpath)
            if cb is None or not cb.get("mir"):
                continue
            CB = M.Body(I.Inliner(F.lib).body(cb))
            out += [(bb, sp_) for _b, sp_ in _clearing_stores_deep(F, CB, depth + 1)]
    return out


def _cleared_only_at_entry(ck, F, g, heads):
    """Within one run a file that was read stays marked: the processed flag is written with anything other than `true` only in a
    function that enters the import recursion from outside (the reset at the start of a run), before it does so. A clearing store
    anywhere else (in the recursion, in a helper of it, in a `Drop` impl) makes a file readable again while the run is going on:
    a file imported along two paths is then read and merged twice. Helpers are read inlined (a setter `set_processed(flag)` stores
    what its caller passes)."""
    rec = set()
    for fn, B, cs in heads:
        rec |= cs
    n = 0
    # (a) inside the recursion: the collapsed bodies of its heads hold everything the recursion runs
    for fn, B, cs in heads:
        for bb, sp_ in _clearing_stores_deep(F, B):
            n += 1
            short = fn.rsplit("::", 1)[-1]
            ck.violation("R1", f"flag-cleared:{short}", sp_,
                         f"{fn} (or a helper it calls) clears a file's processed flag while the import recursion is running: a file that was "
                         f"read becomes readable again, so a file imported along two paths is read (and merged) once per path", fn=fn)
    # (b) the functions that enter the recursion from outside: the reset must come before the entry
    local = {b["path"] for b in F.lib.bodies if b.get("mir")}
    for f_ in sorted(local):
        if f_ in rec or "{closure" in f_ or "yaserde_tests" in f_ or "::tests::" in f_:
            continue
        if not (g.get(f_, set()) & rec):
            continue
        IB = I.inlined_body(F.lib, f_, stop=lambda p, rec=frozenset(rec): p in rec)
        enters = [cbb for cbb, ct in IB.calls() if ((M.Body.callee(ct) or "") in rec or (M.Body.callee_decl(ct) or "") in rec)]
        short = f_.rsplit("::", 1)[-1]
        for bb, sp_ in _clearing_stores_deep(F, IB):
            n += 1
            if enters and not any(bb in IB.reachable_from(cbb) for cbb in enters):
                ck.ok("R1", f"flag-cleared-at-entry:{short}", sp_, f"{short}: the processed flags are reset before the import recursion is entered", fn=f_)
            else:
                ck.violation("R1", f"flag-cleared:{short}", sp_,
                             f"{f_} clears a file's processed flag after it entered the import recursion", fn=f_)
    # (c) destructors run wherever a value goes out of scope: no clearing there at all
    for b in scans.bodies(F.lib):
        if " as std::ops::Drop>::drop" not in b["path"]:
            continue
        DB = I.inlined_body(F.lib, b["path"])
        for bb, sp_ in _clearing_stores_deep(F, DB):
            n += 1
            ck.violation("R1", "flag-cleared:drop", sp_,
                         f"{b['path']} clears a file's processed flag when a value is dropped, i.e. outside the reset at the start of a run: during "
                         f"one run a file that was read becomes readable again, so a file imported along two paths is read (and merged) once per path", fn=b["path"])
    return n


def _only_error_mapped(B, l, depth=0):
    """the Result in local l is handed to mapping combinators that touch its error only (`map_err`, `inspect_err`, `or_else` is not one:
    it can make a value)"""
    if depth > 4:
        return False
    ok = True
    for (bb, where, j, x) in M.uses_of_local(B, l):
        if where == "stmt" and x["k"] == "assign" and x["rv"]["k"] in ("use", "ref") and not x["p"].get("proj"):
            ok = ok and _only_error_mapped(B, x["p"]["l"], depth + 1)
        elif where == "term" and x.get("k") == "call":
            d = M.Body.callee_decl(x) or ""
            if any(d.endswith(m_) for m_ in M.MAP_LIKE):
                if not d.endswith(("Result::<T, E>::map_err", "Result::<T, E>::inspect_err")):
                    return False
                if not x["dest"].get("proj"):
                    ok = ok and _only_error_mapped(B, x["dest"]["l"], depth + 1)
    return ok
