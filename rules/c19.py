"""C19 — MultiRef<T> is transparent on the wire and for restriction checks."""
from engine.rulekit import mir as M

MOD = "model::helpers_content::multi_ref"
WRAPPER = MOD + "::MultiRef<"
# trait -> methods that must be overridden (provided ones included where a default body would change behaviour)
REQUIRED = {
    "yaserde::YaSerialize": None,      # None = every method of the trait, required and provided
    "yaserde::YaDeserialize": None,
    "model::helpers_content::restrictions::CheckRestrictions": None,
    "std::default::Default": ["default"],
    "std::clone::Clone": ["clone"],
    "std::fmt::Debug": ["fmt"],
    "std::ops::Deref": ["deref"],
}
ALLOWED_AUX = ("<std::sync::Arc<T, A> as std::ops::Deref>::deref", "std::sync::Arc::<T>::new", "ops::Try::branch",
               "FromResidual::from_residual", "std::ops::Deref::deref")
IDENT = M.IDENTITY_CALLS + ("ops::Try::branch",)


def sp(B, bb):
    return B.term(bb).get("sp", "?")


def from_inner(B, operand):
    """operand originates from `self.inner` (through Arc deref / references)"""
    os_ = M.trace(B, operand, M.IDENTITY_CALLS)
    return bool(os_) and all(o.kind == "arg" and o.local == 1 and o.fields() == ["inner"] for o in os_)


def is_param(B, operand, idx):
    os_ = M.trace(B, operand, ())
    return bool(os_) and all(o.kind == "arg" and o.local == idx and not o.fields() for o in os_)


def run(ck, F):
    ck.explanation = (
        "Items + MIR of module multi_ref: (R1) for every trait the wrapper must be transparent for, an impl for MultiRef<T> exists and "
        "overrides every method a default body could otherwise supply (trait method sets come from the compiler's associated-item "
        "tables); (R2) each overriding method contains exactly one call of the same trait method, resolved on the wrapped value "
        "(receiver originates from self.inner), passes every other parameter through unchanged and in order, and returns that call's "
        "result (directly, via `?` then Ok(()), or re-wrapped in Self{inner: Arc::new(v)}), with no other effectful call; (R3) clone "
        "resolves to Arc's clone on self.inner. The type-level half (bounds for generic T) is the witness crate of C18. Not executed.")
    ck.assumptions = ["Arc<T>'s Debug/Default/Clone/Deref forward to T / share the allocation as documented"]
    ck.rule("R1", "trait-method coverage: impls of YaSerialize, YaDeserialize, CheckRestrictions, Default, Clone, Debug, Deref for "
                  "MultiRef<T> exist and override every listed method (all methods of the yaserde/CheckRestrictions traits)")
    ck.rule("R2", "forwarding shape: one call of the same trait method on self.inner, other parameters unchanged and in order, result "
                  "returned; no other effectful call")
    ck.rule("R3", "sharing: Clone::clone is Arc::clone of self.inner (no T::clone, no Arc::new)")
    impls = [i for i in F.lib.items["impls"] if i["self_ty"].startswith(WRAPPER) and i.get("trait")]
    by_trait = {i["trait"]: i for i in impls}
    ck.floor("R1", "trait impls for MultiRef", len(impls), 7)
    for tr, need in REQUIRED.items():
        imp = by_trait.get(tr)
        short = tr.rsplit("::", 1)[-1]
        if imp is None:
            ck.violation("R1", f"{short}:missing-impl", "-", f"no `impl {short} for MultiRef<T>`: the wrapper is not transparent for {short}", fn=short)
            continue
        have = {m["name"] for m in imp["methods"]}
        allm = [m["name"] for m in (imp.get("trait_methods") or [])]
        want = allm if need is None else need
        for m in want:
            if m in have:
                ck.ok("R1", f"{short}::{m}", imp["span"], f"{short}::{m} is overridden for MultiRef<T>", fn=short)
            else:
                ck.violation("R1", f"{short}::{m}", imp["span"],
                             f"{short}::{m} is not overridden for MultiRef<T>: the trait's default body applies and the wrapped value is bypassed", fn=short)
        # ---- R2 per method
        for m in sorted(have):
            path = f"<{imp['self_ty']} as {tr}>::{m}"
            b = F.lib.body(path)
            if b is None or not b.get("mir"):
                ck.undecided("R2", f"{short}::{m}:body", imp["span"], f"body of {path} not found", fn=short)
                continue
            B = M.Body(b)
            calls = B.calls()
            fwd_decl = f"{tr}::{m}"
            if tr == "std::ops::Deref":
                # deref returns &self.inner
                rets = [s for i in B.reach for s in B.blocks[i]["stmts"] if s["k"] == "assign" and s["p"]["l"] == 0]
                ok = bool(rets) and all(from_inner(B, {"k": "copy", "p": s["rv"]["p"]}) if s["rv"]["k"] == "ref" else
                                        from_inner(B, s["rv"].get("op", {})) for s in rets) and not calls
                (ck.ok if ok else ck.violation)("R2", f"{short}::{m}", b["span"],
                                                "deref returns a reference to self.inner" if ok else "deref does not simply return &self.inner", fn=short)
                continue
            if tr in ("std::default::Default",):
                ok = len(calls) == 1 and (M.Body.callee(calls[0][1]) or "").startswith("<std::sync::Arc<T> as std::default::Default>")
                (ck.ok if ok else ck.violation)("R2", f"{short}::{m}", b["span"],
                                                "default() = Self{inner: Arc::default()} (T::default in a fresh Arc)" if ok
                                                else f"default() is not Arc::<T>::default(): {[M.Body.callee(t) for _, t in calls]}", fn=short)
                continue
            if tr in ("std::clone::Clone", "std::fmt::Debug"):
                tgt = "<std::sync::Arc<T, A> as " + tr + ">::" + m
                # Debug: through the Arc's Debug (which forwards to T's) or on the wrapped value directly (`Debug::fmt(&*self.inner, f)`)
                tgts = (tgt, "std::fmt::Debug::fmt") if tr == "std::fmt::Debug" else (tgt,)
                fw = [(bb, t) for bb, t in calls if (M.Body.callee(t) or "") in tgts]
                others = [M.Body.callee(t) for bb, t in calls if (M.Body.callee(t) or "") not in tgts and not any(
                    (M.Body.callee(t) or "").endswith(a) or (M.Body.callee_decl(t) or "").endswith(a) for a in ALLOWED_AUX)]
                ok = len(fw) == 1 and from_inner(B, fw[0][1]["args"][0]) and not others
                if tr == "std::clone::Clone":
                    if any((M.Body.callee(t) or "").endswith("Arc::<T>::new") for _, t in calls):
                        ok = False
                    (ck.ok if ok else ck.violation)("R3", "clone-shares", b["span"],
                                                    "clone() is Arc::clone(&self.inner): the value is shared, not copied" if ok else
                                                    f"clone() does not (only) clone the Arc: {[M.Body.callee(t) for _, t in calls]}", fn=short)
                else:
                    extra_ok = ok and all(is_param(B, a, i + 2) for i, a in enumerate(fw[0][1]["args"][1:]))
                    (ck.ok if extra_ok else ck.violation)("R2", f"{short}::{m}", b["span"],
                                                          "fmt forwards to the inner value's Debug with the same formatter" if extra_ok else
                                                          f"Debug::fmt does not purely forward: {[M.Body.callee(t) for _, t in calls]}", fn=short)
                continue
            # yaserde / CheckRestrictions: same trait method on the wrapped value
            fw = [(bb, t) for bb, t in calls if (M.Body.callee_decl(t) or "") == fwd_decl]
            others = [M.Body.callee_decl(t) for bb, t in calls if (M.Body.callee_decl(t) or "") != fwd_decl and not any(
                (M.Body.callee(t) or "").endswith(a) or (M.Body.callee_decl(t) or "").endswith(a) for a in ALLOWED_AUX)
                and not _wrapping_map(F, B, t)]
            if len(fw) != 1:
                ck.violation("R2", f"{short}::{m}", b["span"],
                             f"{short}::{m} contains {len(fw)} calls of {fwd_decl} on the wrapped value (expected exactly one): the wrapper "
                             f"does not forward", fn=short)
                continue
            fbb, ft = fw[0]
            g = (ft.get("func") or {}).get("gargs") or []
            problems = []
            if not g or g[0] not in ("T", "C"):
                problems.append(f"the forwarded call is resolved on `{g[0] if g else '?'}`, not on the wrapped type")
            nparams = B.arg_count
            has_self = nparams >= 1 and B.local_ty(1).startswith("&")
            fargs = ft["args"]
            if has_self and "MultiRef" in B.local_ty(1):
                if not from_inner(B, fargs[0]):
                    problems.append("the receiver of the forwarded call is not self.inner")
                for i, a in enumerate(fargs[1:]):
                    if not is_param(B, a, i + 2):
                        problems.append(f"argument {i + 1} of the forwarded call is not parameter {i + 1} passed through unchanged")
                if len(fargs) != nparams:
                    problems.append("the forwarded call does not receive every parameter")
            else:
                for i, a in enumerate(fargs):
                    if not is_param(B, a, i + 1):
                        problems.append(f"argument {i} of the forwarded call is not parameter {i} passed through unchanged")
            if others:
                problems.append(f"additional calls {others}")
            # result returned
            flow = {k for k, _ in M.result_flow(B, fbb, ft)}
            if not flow <= {"returned", "propagated", "mapped:returned", "mapped:propagated"}:
                problems.append(f"the forwarded result is {sorted(flow)}")
            if "propagated" in flow:
                # Ok path must return Ok(()) or Ok(Self{inner: Arc::new(<payload>)})
                for i in sorted(B.reach):
                    for s in B.blocks[i]["stmts"]:
                        if s["k"] == "assign" and s["p"]["l"] == 0 and s["rv"]["k"] == "aggregate" and s["rv"].get("variant") == "Ok":
                            pay = M.trace(B, s["rv"]["ops"][0], IDENT)
                            for o in pay:
                                if o.kind == "aggregate" and o.rv.get("ak") == "tuple" and not o.rv["ops"]:
                                    continue
                                if o.kind == "aggregate" and (o.rv.get("adt") or "").endswith("MultiRef"):
                                    inner = M.trace(B, o.rv["ops"][0], IDENT)
                                    good = all(x.kind == "call" and (M.Body.callee(x.term) or "").endswith("Arc::<T>::new") and all(
                                        y.kind == "call" and y.bb == fbb for y in M.trace(B, x.term["args"][0], IDENT)) for x in inner)
                                    if not good:
                                        problems.append("the value wrapped on success is not the forwarded call's result")
                                    continue
                                problems.append(f"the Ok payload is {o!r}")
            if problems:
                ck.violation("R2", f"{short}::{m}", sp(B, fbb), f"{short}::{m} is not a pure forwarding: " + "; ".join(problems), fn=short)
            else:
                ck.ok("R2", f"{short}::{m}", sp(B, fbb), f"{short}::{m} forwards to the wrapped value with unchanged parameters and returns its result", fn=short)


def _wrapping_map(F, B, t):
    """`result.map(|inner| Self { inner: Arc::new(inner) })`: Result::map with a closure that does nothing but wrap its argument
    into a fresh Arc inside a MultiRef"""
    if not (M.Body.callee_decl(t) or "").endswith("Result::<T, E>::map") or len(t["args"]) != 2:
        return False
    for o in M.trace(B, t["args"][1], ()):
        if o.kind == "const" and (o.const.get("inst_path") or o.const.get("fn_path")):
            # a function of the wrapper handed over by name (`.map(Self::new)`): the same test on its body, its parameter being _1
            cb = F.lib.body(o.const.get("inst_path") or "") or F.lib.body(o.const.get("fn_path") or "")
            value_local = 1
        elif o.kind == "aggregate" and o.rv.get("closure"):
            cb = F.lib.body(o.rv["closure"])
            value_local = 2
        else:
            return False
        if cb is None or not cb.get("mir"):
            return False
        CB = M.Body(cb)
        cs = CB.calls()
        if len(cs) != 1 or not (M.Body.callee(cs[0][1]) or "").endswith("Arc::<T>::new"):
            return False
        arg = M.trace(CB, cs[0][1]["args"][0], IDENT)
        if not (arg and all(x.kind == "arg" and x.local == value_local for x in arg)):
            return False
        for i in sorted(CB.reach):
            for st in CB.blocks[i]["stmts"]:
                if st["k"] == "assign" and st["p"]["l"] == 0 and not st["p"].get("proj"):
                    rv = st["rv"]
                    if not (rv["k"] == "aggregate" and (rv.get("adt") or "").endswith("MultiRef")):
                        return False
                    inner = M.trace(CB, rv["ops"][0], IDENT)
                    if not all(x.kind == "call" and x.bb == cs[0][0] for x in inner):
                        return False
        return True
    return False
