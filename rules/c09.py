import re
"""C09 — QName references resolve by namespace, independent of declaration order."""
from engine.rulekit import fde
from engine.rulekit import hir as Hh
from engine.rulekit import mir as M
from engine.rulekit import og
from engine.rulekit import scans
from rules import c02 as C02
from rules import anchors as A

_SPLIT = [None]   # path of the QName splitter of the tree being analysed (set in run)
_SPLIT_KEYS = ["0", "1"]   # how its result is taken apart: (key of the local name, key of the prefix)

XSD_NS = "http://www.w3.org/2001/XMLSchema"
NS_PARAM_TY = "std::option::Option<&model::Namespace>"


def _prefix_unbound(CE, cond, branch):
    """the condition, taken on `branch`, says that the prefix of the type reference (second component of split_type) was looked up
    in the document (a RustDocument method that receives it) and the lookup did not succeed"""
    c = CE.expand(cond)     # (CE keeps split_type and the document's lookup methods as calls: they are what is looked for)
    while isinstance(c, tuple) and c[0] == "not":
        c, branch = c[1], not branch
    if branch is not False:
        return False

    def prefix(n):
        return isinstance(n, tuple) and ((n[0] == "field" and n[2] == _SPLIT_KEYS[1] and isinstance(n[1], tuple) and n[1][0] == "call" and str(n[1][1]) == _SPLIT[0])
                                         or any(prefix(x) for x in n if isinstance(x, tuple)))
    positive = False
    for call in og.nf_calls(c):
        if "doc::RustDocument::" in str(call[1]) and any(prefix(a) for a in call[2]):
            positive = True
    # only "is bound" spellings: is_some_and(prefix, is_some(lookup)), is_some(lookup), islet Some(..) = lookup
    text = og.nf_str(c)
    return positive and "is_none" not in text


def _subforms(n):
    if isinstance(n, tuple):
        yield n
        for x in n:
            if isinstance(x, tuple):
                yield from _subforms(x)


def _is_other_name(n):
    """the normal form reads the `name` of an OtherRustType (the bare Rust name of a user type)"""
    if not isinstance(n, tuple):
        return False
    if n[0] == "field" and n[2] == "name" and "Other⟨" in og.nf_str(n[1]):
        return True
    return any(_is_other_name(x) for x in n[1:] if isinstance(x, tuple)) or any(
        _is_other_name(y) for x in n[1:] if isinstance(x, tuple) and x and not isinstance(x[0], str) for y in x if isinstance(y, tuple))


def rule_type_refs_qualified(ck, F, rule="R5"):
    """`prefix:Name` denotes the component of the prefix's namespace: in the generated code that is `<module of the namespace>::Name`.
    Members are written into structs of other modules as well (inherited members, envelopes), where a bare `Name` is resolved by rustc
    in the wrong module — silently, when that module has a type of the same name. Decided on the templates: wherever the name of a user
    type is written into a member's type, the module path is written in front of it (when there is one)."""
    from rules import templates as T
    X = T.extractor(F)
    CE = T._ce(X)
    n = 0
    for fn in sorted(X.events):
        for ev in X.events[fn]:
            if ev.kind != "emit" or not T.RE_MEMBER.match(ev.skeleton()):
                continue
            prev = None
            seen_colon = False
            for p in ev.parts:
                if p[0] == "lit":
                    prev = p
                    if ":" in p[1].replace("::", ""):
                        seen_colon = True
                    continue
                if seen_colon and _is_other_name(CE.expand(p[1])):
                    n += 1
                    short = fn.rsplit("::", 1)[-1]
                    module_known_absent = any(c[0] == "alt" and "module" in og.nf_str(c[1]) and og.decision(c[1], c[2])[0][0] == "some" and og.decision(c[1], c[2])[1] is False
                                              for c in ev.ctx)
                    if (prev is not None and prev[1].endswith("::")) or module_known_absent:
                        ck.ok(rule, f"qualified:{short}", ev.site, "the user type's name is written behind its module path", fn=short)
                    else:
                        ck.violation(rule, f"bare-type-name:{short}", ev.site,
                                     f"{short}: the member template `{ev.skeleton().strip()[:50]}` writes the bare name of a user type "
                                     f"({og.nf_str(p[1])[:60]}) although the type has a module: in a struct of another module (an inherited member, "
                                     f"an envelope) the name is resolved there, and binds to that module's type of the same name", fn=short)
                prev = None
    # the Display of the type carrier is what the other member templates show: it writes module::name
    ds = CE.display_summary("model::field::RustFieldType")
    if ds is None:
        ck.undecided(rule, "display", "-", "what Display of RustFieldType writes could not be read")
    else:
        # evaluated for a user type with and without a module (however the body is arranged)
        got = {}
        for label, module in (("with-module", fde.some("m_")), ("without-module", None)):
            val = ("variant", "model::field::RustFieldType::Other", ({"name": "N_", "module": module},))
            try:
                got[label] = fde.Evaluator({("param", "self"): val}).ev(ds)
            except fde.Undecided as u:
                got[label] = f"undecided: {u}"
        if got["with-module"] == "m_::N_" and got["without-module"] == "N_":
            ck.ok(rule, "display", "-", "Display of a user type writes `module::name` when the type has a module, the bare name otherwise")
        elif str(got["with-module"]).startswith("undecided") or str(got["without-module"]).startswith("undecided"):
            ck.undecided(rule, "display", "-", f"what Display of a user type writes could not be evaluated: {got}")
        else:
            ck.violation(rule, "display", "-", f"Display of a user type with module `m_` and name `N_` writes {got['with-module']!r} "
                         f"(without a module: {got['without-module']!r}); the reference has to read `m_::N_`")


def rule_global_components_only(ck, F, rule="R3"):
    """A QName reference denotes a *global* component: a child of a `schema` element. The lookup that searches the XML tree for a
    component that was not read yet has to test exactly that (`candidate.parent()` is a schema); a test over the ancestors (or no
    test) lets a local element of the same name, nested in some type, stand in for the global component."""
    from engine.rulekit import hir as Hh_
    g = scans.call_graph(F.lib)
    live = scans.api_reachable(F.lib)
    lookups = [p_ for p_, _n, _s in A.component_lookups(F)]
    tree_fns = []
    for p_ in lookups:
        for q in [p_] + A.local_callees(F, p_, depth=2):
            b = F.lib.body(q)
            if b is None or not b.get("mir") or q in tree_fns:
                continue
            if any((M.Body.callee_decl(t) or "").endswith(("::descendants", "::children")) for _, t in M.Body(b).calls()) or q not in lookups:
                tree_fns.append(q)
    evidence = []
    for q in tree_fns:
        b = F.lib.body(q)
        if b is None or b.get("hir") is None:
            continue
        nb = Hh_.norm_body(b)
        lets = {}
        for x in Hh_.walk(nb["value"]):
            if x.get("k") == "Let" and x.get("init") is not None:
                for i_, _nm in Hh_.pat_bindings(x["pat"]):
                    lets[i_] = Hh_.describe(x["init"])
            if x.get("k") == "Match":      # `match node.parent() { Some(parent) if .. => .. }`
                for a_ in x.get("arms", []):
                    for i_, _nm in Hh_.pat_bindings(a_["pat"]):
                        lets[i_] = Hh_.describe(x["scrut"])
            if x.get("k") == "LetExpr" and x.get("init") is not None:     # `if let Some(parent) = node.parent()`
                for i_, _nm in Hh_.pat_bindings(x["pat"]):
                    lets[i_] = Hh_.describe(x["init"])

        def has_schema_lit(n):
            return any(y.get("k") == "Lit" and y.get("lit") == "str" and y.get("v") == "schema" for y in Hh_.exprs(n))
        def own_schema_test(n):
            """the closure's own body compares with "schema" (not a closure nested inside it: that one is recorded at the adaptor
            call that takes it)"""
            if isinstance(n, list):
                return any(own_schema_test(y) for y in n)
            if not isinstance(n, dict):
                return False
            if n.get("k") == "Closure":
                return False
            if n.get("k") == "Lit" and n.get("lit") == "str" and n.get("v") == "schema":
                return True
            return any(own_schema_test(v) for v in n.values() if isinstance(v, (dict, list)))
        for x in Hh_.exprs(nb["value"]):
            if x.get("k") == "MethodCall" and any(Hh_.strip(a).get("k") == "Closure" and own_schema_test(Hh_.strip(a)["body"]["value"]) for a in x["args"]):
                evidence.append((Hh_.sp(x), Hh_.describe(x["recv"])))
            elif x.get("k") == "Binary" and x.get("op") in ("Eq", "Ne") and has_schema_lit(x) and not any(y.get("k") == "Closure" for y in Hh_.exprs(x)):
                other = [y for y in Hh_.exprs(x) if y.get("k") == "Path" and y.get("res") == "local"]
                desc = " ".join(lets.get(y.get("id"), "<param>" if y.get("id") not in lets else "") for y in other)
                evidence.append((Hh_.sp(x), desc))
    # (a closure's own parameter test is recorded at the adaptor call that takes the closure)
    evidence = [(sp_, d_) for sp_, d_ in evidence if d_.strip() and d_.strip() != "<param>"] or evidence
    if not tree_fns:
        ck.undecided(rule, "global-components-only", "-", "no lookup that searches the XML tree was found")
        return
    bad = [(sp_, d_) for sp_, d_ in evidence if any(w in d_ for w in ("ancestors(", "descendants(", "children(")) and "parent()" not in d_.split("ancestors(")[0][-20:]]
    good = [(sp_, d_) for sp_, d_ in evidence if "parent()" in d_ and not any(w in d_ for w in ("ancestors(", "descendants("))]
    if bad:
        ck.violation(rule, "global-components-only", bad[0][0],
                     f"the search for a component in the XML tree accepts a candidate when some ancestor (`{bad[0][1][:80]}`) is a schema, not when its parent is: "
                     f"a local element or attribute nested in a type can be taken for the global component of the same name")
    elif good:
        ck.ok(rule, "global-components-only", good[0][0], "the search in the XML tree accepts only children of a `schema` element (global components)")
    else:
        ck.violation(rule, "global-components-only", (F.lib.body(tree_fns[0]) or {}).get("span", "-"),
                     "the search for a component in the XML tree does not test that the candidate is a child of a `schema` element: local declarations can be "
                     "taken for global components")


def run(ck, F):
    ck.explanation = (
        "(R1) the QName split is a pure expression: its provenance normal form is evaluated by the finite-domain evaluator on the "
        "four shapes a QName can have; (R2) the prefix table is filled from every in-scope xmlns declaration (unfiltered loop) and binds "
        "the prefix to the registry entry of that URI; (R3) every function that selects a schema component by name receives the "
        "namespace of the reference as a parameter: that parameter must be read (MIR use analysis) and, where the selection is a "
        "closure predicate, captured by the predicate; the builtin-vs-user decision must consult the prefix; (R4) selections must "
        "also depend on the component kind; (R6) merging an imported document's prefix table may not replace existing bindings. "
        "Which component is actually chosen on a given schema set is a data question; decided is whether the selection *can* depend "
        "on namespace/kind at all.")
    ck.assumptions = ["roxmltree::Node::namespaces() yields every in-scope declaration", "HashMap::extend overwrites existing keys (std contract)"]
    ck.rule("R1", "QName split: 'p:N' -> (N, Some(p)); 'N' -> (N, None); 'a:b:c' -> ('b:c', Some(a)); '' -> ('', None); prefix looked up in the prefix table")
    ck.rule("R2", "prefix table: every in-scope xmlns:p is registered; prefix -> the registry's Namespace for that URI (reused by URI equality)")
    ck.rule("R3", "namespace-dependent selection: the namespace of the reference is read by every by-name selection, and the builtin decision consults the prefix")
    ck.rule("R4", "kind-dependent selection: by-name selections filter on the component kind the reference requires")
    ck.rule("R5", "the reference is written with the namespace's module: a user type's name in a member's type is preceded by its module path")
    ck.rule("R6", "prefix tables are not overwritten by imports")
    CE = og.CallExpander(F)
    _SPLIT[0] = A.qname_splitter(F)
    _SPLIT_KEYS[:] = list(A.qname_parts(F))
    # ---- R1
    SPLIT = A.qname_splitter(F)
    RESOLVE = A.qname_resolver(F)
    if SPLIT is None or RESOLVE is None:
        ck.undecided("R1", "anchor", "-", f"the QName splitter `fn(&str) -> (&str, Option<&str>)` / resolver `fn(&str, &RustDocument) -> (&str, Option<Rc<Namespace>>)` "
                     f"could not be attributed uniquely ({SPLIT}, {RESOLVE})")
    else:
        s_short, r_short = SPLIT.rsplit("::", 1)[-1], RESOLVE.rsplit("::", 1)[-1]
        nf = CE.expand(("call", SPLIT, (("param", "t"),)))
        cases = {"p:N": ("N", fde.some("p")), "N": ("N", None), "a:b:c": ("b:c", fde.some("a")), "": ("", None)}
        for inp, want in cases.items():
            try:
                v = fde.Evaluator({("param", "t"): inp}).ev(nf)
                got = (v[1][0], v[1][1]) if isinstance(v, tuple) and v[0] == "tuple" else v
                if isinstance(v, dict) and set(_SPLIT_KEYS) <= set(v):
                    got = (v[_SPLIT_KEYS[0]], v[_SPLIT_KEYS[1]])      # the pair as a struct
            except fde.Undecided as u:
                ck.undecided("R1", f"split:{inp!r}", (F.lib.body(SPLIT) or {}).get("span", "-"), f"{s_short} not evaluable: {u}")
                continue
            if got == want:
                ck.ok("R1", f"split:{inp!r}", SPLIT, f"{s_short}({inp!r}) = {got}")
            else:
                ck.violation("R1", f"split:{inp!r}", SPLIT, f"{s_short}({inp!r}) = {got}, XML Namespaces prescribes {want}")
        rt = og.nf_str(CE.expand(("call", RESOLVE, (("param", "t"), ("param", "doc")))))
        if "get(doc.namespace_lookup" in rt:
            ck.ok("R1", "prefix-lookup", RESOLVE, "the prefix is looked up in doc.namespace_lookup")
        else:
            ck.violation("R1", "prefix-lookup", RESOLVE, f"{r_short} does not look the prefix up in the prefix table: {rt[:160]}")
    # ---- R2
    X = None
    b = F.lib.body("model::node::collect_namespaces_on_node")
    if b is None:
        ck.undecided("R2", "collector", "-", "collect_namespaces_on_node not found")
    else:
        # every registration call with its loop / condition context (loops, iterator chains and if-let alike)
        regs = []
        exits = []

        def cb(e, env, ctx):
            if e.get("k") == "MethodCall" and e["name"] == "add_namespace_reference":
                W = og.NF(F)
                regs.append((e, [og.NF(F).nf(a, env) for a in e["args"]], ctx))
            if e.get("k") in ("Ret", "Break") or (e.get("k") == "MethodCall" and e["name"] in ("take", "skip", "step_by", "take_while", "skip_while", "nth", "last", "next")):
                exits.append(e)
        og.EnvWalker(F).walk_fn(b["path"], cb)
        ok = False
        why = f"{len(regs)} registration call(s), {len(exits)} early exit(s)"
        if len(regs) == 1 and not exits:
            e, args, ctx = regs[0]
            stars = [c for c in ctx if c[0] == "star"]
            alts = [c for c in ctx if c[0] == "alt"]
            if len(stars) == 1 and og.nf_str(stars[0][1]) == "namespaces(node)":
                el = ("elem", stars[0][1])
                name = ("call", "name", (el,))
                shape_ok = len(args) == 2 and _same_call(args[0], ("payload", "Some", None), "name", el) and _is_call_on(args[1], "uri", el)
                conds_ok = all(c[2] is True and c[1][0] == "islet" and c[1][1].startswith("Some(") and _is_call_on(c[1][2], "name", el) for c in alts)
                ok = shape_ok and conds_ok
                why = f"arguments {[og.nf_str(a) for a in args]} under {[og.nf_str(c[1]) for c in alts]}"
            else:
                why = f"registration is not inside exactly one loop over node.namespaces(): {[og.nf_str(c[1]) for c in stars]}"
        if ok:
            ck.ok("R2", "every-declaration", Hh.sp(regs[0][0]), "every named in-scope namespace declaration is registered (prefix, uri)")
        else:
            ck.violation("R2", "every-declaration", b["span"], f"collect_namespaces_on_node does not register every in-scope (prefix, uri) pair ({why})")
    ins = []
    W = og.EnvWalker(F)

    def cb(e, env, ctx):
        if e.get("k") == "MethodCall" and e["name"] == "insert" and "namespace_lookup" in Hh.describe(e["recv"]):
            ins.append((Hh.sp(e), og.nf_str(W.NF.nf(e["args"][0], env)), CE.expand(W.NF.nf(e["args"][1], env)), ctx))
    W.walk_fn("model::doc::RustDocument::add_namespace_reference", cb)

    def leaves(v):
        """the alternatives a value can be (through if / match / tuple projections)"""
        if isinstance(v, tuple) and v[0] == "ifelse":
            return leaves(v[2]) + leaves(v[3])
        if isinstance(v, tuple) and v[0] == "match":
            return [x for _, arm in v[2] for x in leaves(arm)]
        if isinstance(v, tuple) and v[0] == "field" and isinstance(v[1], tuple) and v[1][0] in ("ifelse", "match") and str(v[2]).isdigit():
            return [x for l in leaves(v[1]) for x in leaves(og.nf_simplify(("field", l, v[2])))]
        return [v]
    kinds = set()
    n_bind = 0
    for (site, k, v, ctx) in ins:
        if k != "original_abbreviation":
            ck.violation("R2", "binding-key", site, f"prefix table key is {k}, not the declared prefix")
            continue
        for leaf in leaves(v):
            ls = og.nf_str(leaf)
            flat = ls.replace("(", "").replace(")", "")
            reuse = _registry_entry_for(leaf, "url")
            fresh = _builds_namespace_for(leaf, "url")
            n_bind += 1
            if reuse or fresh:
                kinds.add("reuse" if reuse else "fresh")
                ck.ok("R2", f"binding:{'reuse' if reuse else 'fresh'}", site, f"prefix -> {'existing registry entry with the same URI' if reuse else 'new Namespace for this URI'}")
            else:
                ck.violation("R2", "binding-value", site, f"prefix is bound to {ls[:120]}")
    # a prefix that is in the table keeps what it is bound to: the table is flat (one per document), and what is read after a schema
    # element — the messages, port types and bindings of the WSDL — resolves its prefixes with the bindings of the `definitions`
    for (site, k, v, ctx) in ins:
        absent = False
        flat = []
        for c in ctx:
            if c[0] != "alt":
                continue
            stack = [(CE.expand(c[1]), c[2])]
            while stack:
                cond, br = stack.pop()
                while isinstance(cond, tuple) and cond and cond[0] == "not":
                    cond, br = cond[1], not br
                if isinstance(cond, tuple) and cond and cond[0] == "binop" and ((cond[1] == "Or" and br is False) or (cond[1] == "And" and br is True)):
                    stack += [(cond[2], br), (cond[3], br)]       # `!(a || b)`: neither; `a && b`: both
                else:
                    flat.append((cond, br))
        for cond, br in flat:
            text = og.nf_str(cond)
            if "namespace_lookup" not in text:
                continue
            if isinstance(cond, tuple) and cond[0] == "call" and str(cond[1]).rsplit("::", 1)[-1] == "contains_key" and br is False:
                absent = True
            if isinstance(cond, tuple) and cond[0] == "islet" and ((str(cond[1]).startswith("Some(") and br is False) or (str(cond[1]).rsplit("::", 1)[-1] == "None" and br is True)):
                absent = True
            if isinstance(cond, tuple) and cond[0] == "call" and str(cond[1]).rsplit("::", 1)[-1] in ("is_some",) and br is False:
                absent = True
            if isinstance(cond, tuple) and cond[0] == "call" and str(cond[1]).rsplit("::", 1)[-1] in ("is_none",) and br is True:
                absent = True
        if absent:
            ck.ok("R2", "binding-once", site, "a prefix is bound only when the table does not hold it yet")
        else:
            ck.violation("R2", "binding-once", site,
                         "a prefix that is in the table already can be bound again (the insertion is not under `the table does not hold the prefix`): the "
                         "bindings of the enclosing `definitions` are lost to the last schema that re-declared the prefix, and the messages, port types and "
                         "bindings read afterwards resolve `tns:..` in that schema's namespace")
    if ins and kinds != {"reuse", "fresh"}:
        ck.violation("R2", "binding-alternatives", ins[0][0], f"the prefix table is only ever filled with {sorted(kinds)} entries: a declared prefix must be bound to the "
                     f"registry's entry for its URI when there is one and to a new Namespace otherwise")
    ck.floor("R2", "prefix table insertions", len(ins), 1)
    rule_prefix_table_writers(ck, F)
    # ---- R3 / R4: by-name selections
    live = scans.api_reachable(F.lib)
    n_sel = 0
    sel_roles = {}
    for fb in sorted(F.lib.bodies, key=lambda b_: b_.get("span", "")):
        if fb.get("closure") or not fb.get("mir") or fb["path"] not in live:
            continue
        B = M.Body(fb)
        ns_params = [l for l in range(1, B.arg_count + 1) if B.local_ty(l) == NS_PARAM_TY]
        if not ns_params:
            continue
        name_params = [l for l in range(1, B.arg_count + 1) if B.local_ty(l) == "&str"]
        if not name_params:
            continue
        n_sel += 1
        fname = fb["path"].rsplit("::", 1)[-1]
        # keyed by what the function selects from, not by its name: the document's component registry, the XML tree, a WSDL collection
        reads_ = " ".join(str(s_["rv"]) for i_ in sorted(B.reach) for s_ in B.blocks[i_]["stmts"] if s_["k"] == "assign")
        over = []
        if any(f"'f': '{f_}'" in reads_ for f_ in _registry_fields(F)):
            over.append("registry")
        if any((M.Body.callee_decl(t_) or "").endswith(("::descendants", "::children")) for _, t_ in B.calls()):
            over.append("xml")
        for c_ in ("soap_messages", "soap_ports", "soap_bindings"):
            if f"'f': '{c_}'" in reads_:
                over.append(c_)
        short = ("+".join(over) or "other") + "-lookup"
        sel_roles[short] = sel_roles.get(short, 0) + 1
        if sel_roles[short] > 1:
            short += f"#{sel_roles[short]}"
        # WSDL-level components (messages, port types, bindings) live in typed collections of the single WSDL namespace:
        # their kind is the collection's type and they are outside the references the property lists.
        reads = " ".join(f for i in sorted(B.reach) for s in B.blocks[i]["stmts"] if s["k"] == "assign"
                         for f in [str(s["rv"])] )
        typed = [c for c in ("soap_messages", "soap_ports", "soap_bindings") if f"'f': '{c}'" in reads]
        if typed and not any(f"'f': '{f_}'" in reads for f_ in _registry_fields(F)):
            ck.ok("R3", f"{short}:wsdl-collection", fb["span"],
                  f"{fname} selects from the typed collection {typed[0]} of the WSDL document (single definitions namespace; outside the claim)", fn=short)
            continue
        for l in ns_params:
            uses = [u for u in M.uses_of_local(B, l) if u[1] != "drop"]
            pname = B.local_name(l) or f"_{l}"
            if not uses:
                ck.violation("R3", f"{short}:namespace-ignored", fb["span"],
                             f"{fname} selects a component by name but never reads the namespace of the reference (`{pname}`): a component "
                             f"with the same local name in another namespace is returned", fn=short)
            else:
                # if the selection is a closure predicate, it must capture the namespace; passing it on to a callee is judged there
                preds = [s for i in sorted(B.reach) for s in B.blocks[i]["stmts"] if s["k"] == "assign" and s["rv"]["k"] == "aggregate" and s["rv"].get("closure")]
                captured = any(any(o.get("k") in ("copy", "move") and any(x.kind == "arg" and x.local == l for x in M.trace(B, o, ())) for o in s_["rv"]["ops"]) for s_ in preds)
                aliases = {l}
                for _ in range(4):
                    for a in list(aliases):
                        for u in M.uses_of_local(B, a):
                            if u[1] == "stmt" and u[3]["rv"]["k"] in ("use", "ref") and not u[3]["p"].get("proj"):
                                aliases.add(u[3]["p"]["l"])
                passed = any(u[1] == "term" and u[3].get("k") == "call" for a in aliases for u in M.uses_of_local(B, a))
                # a selection by closure predicate (find/any/position/filter over a collection) must itself look at the namespace;
                # handing it on to a fallback does not make the first selection namespace-aware
                sel = [(bb, t) for bb, t in B.calls() if (M.Body.callee_decl(t) or "").endswith(
                    ("iter::Iterator::find", "iter::Iterator::any", "iter::Iterator::position", "iter::Iterator::filter", "iter::Iterator::find_map",
                     "iter::Iterator::rposition", "iter::Iterator::all"))]
                sel_bad = []
                COMPONENTS = {"nodes", "soap_messages", "soap_ports", "soap_bindings"}
                ITER = M.IDENTITY_CALLS + ("[T]>::iter", "IntoIterator::into_iter", "Vec::<T, A>::iter")

                def captures_ns(o, depth=0):
                    """the closure literal o captures the namespace parameter, directly or through another closure it captures"""
                    if depth > 3:
                        return False
                    for op in o.rv["ops"]:
                        if op.get("k") not in ("copy", "move"):
                            continue
                        for x in M.trace(B, op, ()):
                            if x.kind == "arg" and x.local == l:
                                return True
                            if x.kind == "aggregate" and x.rv.get("closure") and captures_ns(x, depth + 1):
                                return True
                    return False
                consumed = set()   # filters that feed a later selection are judged with it
                for sbb, st in sel:
                    # the selection is the conjunction of the predicates along the chain `src.filter(p1).filter(p2).find(p3)`
                    chain = [(sbb, st)]
                    cur = st
                    src = []
                    for _ in range(6):
                        src = M.trace(B, cur["args"][0], ITER)
                        nxt = [o for o in src if o.kind == "call" and (M.Body.callee_decl(o.term) or "").endswith(("iter::Iterator::filter", "iter::Iterator::take_while", "iter::Iterator::skip_while"))]
                        if len(src) == 1 and nxt:
                            chain.append((nxt[0].bb, nxt[0].term))
                            consumed.add(nxt[0].bb)
                            cur = nxt[0].term
                        else:
                            break
                    over_components = any(set(o.fields()) & COMPONENTS for o in src) or any(
                        o.kind == "call" and (M.Body.callee_decl(o.term) or "").endswith(("::descendants", "::children")) for o in src)
                    if not over_components or sbb in consumed:
                        continue
                    clos = [o for (_, ct) in chain for a in ct["args"][1:] for o in M.trace(B, a, ()) if o.kind == "aggregate" and o.rv.get("closure")]
                    if clos and not any(captures_ns(c) for c in clos):
                        sel_bad.append(B.term(sbb).get("sp"))
                if sel_bad:
                    ck.violation("R3", f"{short}:namespace-not-in-predicate", sel_bad[0],
                                 f"{fname}: a component is selected by a predicate that does not look at the namespace of the reference (`{pname}`): "
                                 f"a component with the same local name in another namespace is returned", fn=short)
                elif captured or passed:
                    ck.ok("R3", f"{short}:namespace-used", fb["span"], f"{fname}: the reference's namespace is " + ("captured by the selection predicate" if captured else "passed on"), fn=short)
                else:
                    ck.violation("R3", f"{short}:namespace-not-in-predicate", fb["span"], f"{fname}: `{pname}` is read but not by the selection predicate", fn=short)
        # every found component that is returned must depend on the namespace of the reference: by data (selected by a predicate or
        # callee that received it) or by control (a test on it dominates the return)
        for l in ns_params:
            ns_switches = []
            for i in sorted(B.reach):
                t = B.term(i)
                if t.get("k") == "switch":
                    roots, via = M.slice_info(B, t["discr"])
                    if ("arg", l) in roots:
                        ns_switches.append(i)
            for i in sorted(B.reach):
                cands = []
                for st in B.blocks[i]["stmts"]:
                    if st["k"] == "assign" and st["p"]["l"] == 0 and not st["p"].get("proj") and st["rv"]["k"] == "aggregate" \
                            and st["rv"].get("variant") in ("Some", "Ok") and st["rv"]["ops"]:
                        cands.append((st["rv"]["ops"][0], st.get("sp")))
                t = B.term(i)
                if t.get("k") == "call" and t["dest"]["l"] == 0 and not t["dest"].get("proj") and not (M.Body.callee_decl(t) or "").endswith("from_residual"):
                    for a in t["args"]:
                        cands.append((a, t.get("sp")))
                for (op, site_) in cands:
                    roots, via = M.slice_info(B, op)
                    data = ("arg", l) in roots
                    ctrl = any(B.dominates(sw, i) and sw != i for sw in ns_switches)
                    if not (data or ctrl):
                        ck.violation("R3", f"{short}:result-independent-of-namespace", site_ or fb["span"],
                                     f"{fname} can return a component that was selected without looking at the namespace of the reference "
                                     f"(neither the value returned nor a test dominating this return depends on `{B.local_name(l) or l}`)", fn=short)
                    else:
                        ck.ok("R3", f"{short}:result-depends-on-namespace", site_ or fb["span"],
                              f"{fname}: the returned component depends on the reference's namespace ({'data' if data else 'control'})", fn=short)
        # R4 kind
        kinds = _mentions_kind(F, fb)
        if kinds:
            ck.ok("R4", f"{short}:kind", fb["span"], f"{fname} filters on the component kind ({kinds})", fn=short)
        else:
            ck.violation("R4", f"{short}:kind-ignored", fb["span"],
                         f"{fname} selects by name (and namespace) only: a reference can bind to a component of another kind that carries the same name", fn=short)
            # the finding recorded for the pinned tree is about the kinds the registry held then — types (simple, complex) and
            # elements; a further kind of named component entering the same registry is a further way for a reference to bind wrongly
            nk = _named_kinds(F, B.local_ty(0))
            if nk is None or nk > CONFIRMED_NAMED_KINDS:
                ck.violation("R4", f"{short}:kind-ignored:more-kinds", fb["span"],
                             f"{fname} selects by name (and namespace) only, and what it selects from holds "
                             f"{'an unknown number of' if nk is None else nk} kinds of named components ({CONFIRMED_NAMED_KINDS} when the finding was recorded: "
                             f"simple types, complex types, elements): a reference to a type can now also bind to a component of the added kind that "
                             f"carries the same name (an attribute group `Audit` declared before the complex type `Audit`)", fn=short)
    ck.floor("R3", "by-name selection functions", n_sel, 3)
    rule_global_components_only(ck, F)
    # .. and a lookup finds a component by its name, not by a position in the list of components (shared with C02.R5)
    from rules import c02 as C02_
    C02_.rule_components_by_name(ck, F, rule="R3")
    rule_type_refs_qualified(ck, F)
    # a `ref` member names its target through the reference (C01.R4 evaluates what type such a member gets)
    from rules import c01 as C01
    from rules import c04 as C04
    from rules import templates as T_
    C01.rule_refs_name_derivable_items(C04._Sub(ck, "R5", lambda key: key.startswith("ref-type-from-reference")), F, T_.extractor(F))
    # a definition that is read out of its turn (a forward reference) is read under its own schema's namespace: otherwise what is
    # made of a reference depends on whether the definition comes before or after it
    from rules import c10 as C10
    C10.rule_component_read_out_of_turn(C04._Sub(ck, "R4", lambda key: key.startswith("out-of-turn") or "floor" in key), F, rule="R6")
    # builtin decision: wherever as_rust_type consults the builtin table (the match, the constant table, a helper holding either),
    # it does so only on the paths on which the prefix of the reference was found not to name a namespace of the document
    b = F.lib.body(C02.AS_RUST_TYPE)
    tab, holder, tsite = C02.builtin_table(F)
    if b is None or tab is None:
        ck.undecided("R3", "builtin-decision", "-", "as_rust_type / the builtin table not found")
    else:
        users = (set(C02.TABLE_LOOKUP.get(holder, [])) | {holder}) - {C02.AS_RUST_TYPE}
        class _CE(og.CallExpander):
            def summary(self, path):
                if str(path) == _SPLIT[0] or "doc::RustDocument::" in str(path):
                    return None
                return super().summary(path)
        CE = _CE(F)
        sites = []

        lit_bodies = {}

        def cb_(e, env, ctx):
            k = e.get("k")
            if k == "Match" and Hh.sp(e) == tsite:
                # the table is the arms with literal patterns: each is judged where it runs (behind the guards of the arms before it)
                for a_ in e["arms"]:
                    if C02._pat_literals(a_["pat"]) is not None:
                        lit_bodies[id(Hh.strip(a_["body"]))] = True
                if not lit_bodies:
                    sites.append((Hh.sp(e), ctx))
                return
            if id(e) in lit_bodies:
                sites.append((Hh.sp(e), ctx))
                return
            if (k == "Path" and e.get("path") == holder) or (k in ("Call", "MethodCall") and (Hh.callee_path(e) or "") in users):
                sites.append((Hh.sp(e), ctx))
        try:
            og.EnvWalker(F).walk_fn(C02.AS_RUST_TYPE, cb_)
        except og.Unrecognised as u:
            ck.undecided("R3", "builtin-decision", b["span"], f"as_rust_type could not be read: {u.what}")
            sites = None
        if sites is not None and not sites:
            ck.undecided("R3", "builtin-decision", b["span"], "no use of the builtin table found in as_rust_type")
        elif sites is not None:
            def conjuncts_of(ctx):
                # `if a && b` taken: both hold
                out = []
                for c in ctx:
                    if c[0] != "alt":
                        continue
                    stack = [(CE.expand(c[1]), c[2])]
                    while stack:
                        cond, br = stack.pop()
                        while isinstance(cond, tuple) and cond and cond[0] == "not":
                            cond, br = cond[1], not br
                        if br is True and isinstance(cond, tuple) and cond and cond[0] == "binop" and cond[1] == "And":
                            stack += [(cond[2], True), (cond[3], True)]
                        elif br is False and isinstance(cond, tuple) and cond and cond[0] == "binop" and cond[1] == "Or":
                            stack += [(cond[2], False), (cond[3], False)]
                        else:
                            out.append(("alt", cond, br))
                return out
            sites = [(sp_, conjuncts_of(ctx)) for sp_, ctx in sites]
            unguarded = [sp_ for sp_, ctx in sites if not any(c[0] == "alt" and _prefix_unbound(CE, c[1], c[2]) for c in ctx)]
            if not unguarded:
                ck.ok("R3", "builtin-decision", b["span"], f"as_rust_type consults the builtin table ({len(sites)} site(s)) only where the prefix was looked up "
                      "in the document's namespaces and not found: a prefix bound to a document namespace denotes a user type")
            else:
                ck.violation("R3", "builtin-decision", unguarded[0],
                             "as_rust_type matches the local name against the builtin table without consulting the prefix: `tns:date` binds to xs:date")
            # .. and a name without a prefix: it belongs to the default namespace of the schema. Where that is the schema's own target
            # namespace (`xmlns="urn:own" targetNamespace="urn:own"`), `type="language"` names the schema's own type `language`; the
            # table may be consulted only where the document was asked about that and said no.
            def asks_document_about_unprefixed(cond, branch):
                c = CE.expand(cond)
                while isinstance(c, tuple) and c[0] == "not":
                    c, branch = c[1], not branch
                if branch is not False:
                    return False
                text = og.nf_str(c)
                no_prefix = any(isinstance(x, tuple) and ((x[0] == "call" and str(x[1]).rsplit("::", 1)[-1] == "is_none") or
                                                          (x[0] == "islet" and str(x[1]).rsplit("::", 1)[-1] == "None")) and _SPLIT[0] and _SPLIT[0].rsplit("::", 1)[-1] in og.nf_str(x)
                                for x in _subforms(c))
                asks_doc = any(isinstance(x, tuple) and ((x[0] == "call" and "doc::RustDocument::" in str(x[1])) or (x[0] == "field" and x[1] == ("param", "doc")))
                               for x in _subforms(c))
                return no_prefix and asks_doc
            loose = [sp_ for sp_, ctx in sites if not any(c[0] == "alt" and asks_document_about_unprefixed(c[1], c[2]) for c in ctx)]
            if not loose:
                ck.ok("R3", "builtin-decision:unprefixed", b["span"], "for a name without a prefix the document is asked whether such names are its own before "
                      "the builtin table is consulted")
            else:
                ck.violation("R3", "builtin-decision:unprefixed", loose[0],
                             "as_rust_type takes a name without a prefix for a built-in type whenever the table has it, whatever the default namespace of "
                             "the schema is: in a schema whose default namespace is its target namespace, `type=\"language\"` names the schema's own type "
                             "`language` (with its facets), not xs:language")
    # ---- R6
    b = F.lib.body("model::doc::RustDocument::extend")
    if b is None:
        ck.undecided("R6", "extend", "-", "RustDocument::extend not found")
    else:
        B = M.Body(b)
        bad = False
        for bb, t in B.calls():
            d = M.Body.callee_decl(t) or ""
            if d.endswith(("iter::Extend::extend",)) or "HashMap" in d and d.endswith(("::insert", "::extend")):
                recv = M.trace(B, t["args"][0], ())
                src = M.trace(B, t["args"][1], M.IDENTITY_CALLS + ("mem::take",)) if len(t["args"]) > 1 else []
                recv_self = any(o.kind == "arg" and o.local == 1 and "namespace_lookup" in o.fields() for o in recv)
                src_other = any(o.kind == "arg" and o.local == 2 and "namespace_lookup" in o.fields() for o in src)
                if recv_self and src_other:
                    bad = True
                    ck.violation("R6", "import-overwrites-prefix", B.term(bb).get("sp"),
                                 "RustDocument::extend merges the imported prefix table into the importer's with last-writer-wins: a prefix of the "
                                 "importing document can start to denote a namespace of the imported file")
        if not bad:
            ck.ok("R6", "import-keeps-prefixes", b["span"], "merging an imported document never replaces a prefix binding of the importing document")


def C02_diverges(ifnode):
    return og._diverges(ifnode["then"])


def _mentions_kind(F, fb):
    """Does the function (or its selection closures) match on RustType variants / tag names (component kind)?"""
    out = set()
    paths = [fb["path"]] + [b["path"] for b in F.lib.bodies if b.get("closure") and b["path"].startswith(fb["path"] + "::")]
    for p in paths:
        b = F.lib.body(p)
        if not b or not b.get("mir"):
            continue
        B = M.Body(b)
        for i in sorted(B.reach):
            for s in B.blocks[i]["stmts"]:
                if s["k"] == "assign" and s["rv"]["k"] == "discr":
                    for o in M.trace_place(B, s["rv"]["p"], ()):
                        l = getattr(o, "local", None)
                        tys = B.local_ty(l) if l is not None else ""
                        if "structures::RustType" in tys or "rust_type" in o.fields():
                            out.add("RustType variant")
            t = B.term(i)
            if t.get("k") == "call":
                d = M.Body.callee_decl(t) or ""
                if d.endswith(("RustType::try_as_element",)):
                    out.add("try_as_element")
                for a in t["args"]:
                    if a.get("k") == "const" and a.get("str") in ("element", "complexType", "simpleType", "schema", "attribute", "group"):
                        out.add(f"tag {a['str']}")
    return sorted(out)


def _is_call_on(nf, method, recv):
    """nf is `recv.method()` (resolved path ends with the method name)"""
    return isinstance(nf, tuple) and nf[0] == "call" and str(nf[1]).rsplit("::", 1)[-1] == method and len(nf[2]) >= 1 and nf[2][0] == recv


def _same_call(nf, wrapper, method, recv):
    """nf is the Some-payload of `recv.method()`"""
    return isinstance(nf, tuple) and nf[0] == "payload" and nf[1] == "Some" and _is_call_on(nf[2], method, recv)


def _builds_namespace_for(nf, param):
    """nf contains a `Namespace { namespace: <param..>, .. }` literal"""
    if not isinstance(nf, tuple):
        return False
    if nf[0] == "call" and isinstance(nf[1], str) and nf[1].startswith("struct:") and nf[1].endswith("model::Namespace"):
        for fi in nf[2]:
            if isinstance(fi, tuple) and fi[0] == "field_init" and fi[1] == "namespace":
                return any(r == ("param", param) for r in og.nf_roots(fi[2]))
    return any(_builds_namespace_for(x, param) for x in nf if isinstance(x, tuple))


def _registry_entry_for(nf, param):
    """nf is (a clone of) the element found in self.namespaces by a predicate that compares the element's `namespace` with <param>"""
    n = nf
    for _ in range(6):
        if isinstance(n, tuple) and n[0] == "payload":
            n = n[2]
        elif isinstance(n, tuple) and n[0] == "call" and str(n[1]).rsplit("::", 1)[-1] in ("clone", "cloned", "as_ref", "to_owned") and len(n[2]) == 1:
            n = n[2][0]
        else:
            break
    if not (isinstance(n, tuple) and n[0] == "call" and n[1] == "iter::find" and len(n[2]) == 2):
        return False
    src, pred = n[2]
    if og.nf_str(src) != "self.namespaces":
        return False
    el = ("elem", src)
    while isinstance(pred, tuple) and pred[0] == "not":
        return False
    if not (isinstance(pred, tuple) and pred[0] == "binop" and pred[1] == "Eq"):
        return False
    sides = [pred[2], pred[3]]
    on_elem = [x for x in sides if x == ("field", el, "namespace")]
    on_param = [x for x in sides if any(r == ("param", param) for r in og.nf_roots(x)) and el not in [x]]
    return len(on_elem) == 1 and len(on_param) >= 1


def rule_prefix_table_writers(ck, F, rule="R2"):
    """A document's prefix table holds only its own declarations (plus, for the importer, what `extend` merges in afterwards): a
    prefix means what the XML document that uses it declares. Every writer of the table is judged, and every construction of a
    document: the table it starts with is an empty one, not the table of another document (an imported file that starts from its
    importer's bindings resolves its own `tns:` names in the importer's namespace, because a prefix already bound is not re-bound)."""
    n_w = 0
    for (fn, site, how, bb, node) in scans.field_writers(F.lib, "namespace_lookup"):
        if "yaserde_tests" in fn:
            continue
        n_w += 1
        short = fn.rsplit("::", 1)[-1]
        if fn.endswith("RustDocument::add_namespace_reference") and how.endswith("::insert"):
            ck.ok(rule, f"writer:{short}:insert", site, "prefix table written by add_namespace_reference (own declaration)", fn=short)
        elif fn.endswith("RustDocument::extend") or fn.endswith("RustDocument::empty"):
            ck.ok(rule, f"writer:{short}", site, f"prefix table written in {short} (merge into the importer / initialisation)", fn=short)
        else:
            ck.violation(rule, f"writer:{short}:{how.rsplit('::', 1)[-1]}", site,
                         f"{fn} writes the prefix table with `{how.rsplit('::', 1)[-1]}`: bindings that are not declarations of the document being read "
                         f"enter its prefix table, and (because a prefix already in the table is not re-bound) its own xmlns declarations can be ignored", fn=short)
    ck.floor(rule, "writers of the prefix table", n_w, 2)
    n_c = 0
    for b in scans.bodies(F.lib):
        if "yaserde_tests" in b["path"] or "tests::" in b["path"]:
            continue
        B = M.Body(b)
        for i in sorted(B.reach):
            for st in B.blocks[i]["stmts"]:
                rv = st.get("rv") or {}
                if not (st["k"] == "assign" and rv.get("k") == "aggregate" and rv.get("ak") == "adt" and str(rv.get("adt", "")).endswith("RustDocument")):
                    continue
                names = rv.get("fields") or []
                if "namespace_lookup" not in names:
                    continue
                n_c += 1
                op = rv["ops"][names.index("namespace_lookup")]
                short = b["path"].rsplit("::", 1)[-1]
                foreign = [o for o in M.trace(B, op) if o.kind in ("arg", "upvar") and "namespace_lookup" in o.fields()]
                if foreign:
                    ck.violation(rule, f"writer:{short}:starts-from-another-table", st.get("sp"),
                                 f"{b['path']} builds a document whose prefix table is a copy of another document's (`{foreign[0].name}.namespace_lookup`): "
                                 f"a prefix the other document bound is not re-bound by this document's own declaration, so its `tns:` names resolve in the "
                                 f"other document's namespace", fn=short)
                else:
                    ck.ok(rule, f"constructor:{short}", st.get("sp"), "a document is built with a prefix table that is not another document's", fn=short)
    ck.floor(rule, "constructions of a document", n_c, 1)


CONFIRMED_NAMED_KINDS = 3


def _named_kinds(F, ret_ty):
    """how many kinds of named components the looked-up value can be: the variants with a payload of the enum member of the struct
    a by-name lookup answers with (None when that cannot be read off the types)"""
    import re as _re
    structs = {s_["path"]: s_ for s_ in F.lib.items["structs"]}
    enums = {e_["path"]: e_ for e_ in F.lib.items["enums"]}
    for cand in _re.findall(r"[A-Za-z_][A-Za-z0-9_:]*", ret_ty or ""):
        st = structs.get(cand)
        if st is None:
            continue
        for fld in st["variants"][0]["fields"]:
            en = enums.get(fld["ty"])
            if en is not None:
                return sum(1 for v_ in en["variants"] if v_["fields"])
    return None


def _registry_fields(F):
    """the members of the document that hold the schema components (the list itself, an index of it by name ..): what a by-name lookup
    of the registry reads"""
    st = next((x for x in F.lib.items["structs"] if x["path"] == "model::doc::RustDocument"), None)
    out = [f["name"] for f in (st["variants"][0]["fields"] if st else []) if "RustNode" in f["ty"]]
    return out or ["nodes"]
