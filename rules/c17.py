"""C17 — CLI: result depends on file contents only; failures keep the old output."""
from engine.rulekit import facts as factsmod
from engine.rulekit import inline as I
from engine.rulekit import mir as M
from engine.rulekit import scans

GEN_STEPS = {
    "read inputs": "zeep_lib::utils::read_input_file_and_xsd_files_at_path",
    "read_xml": "zeep_lib::reader::XmlReader::read_xml",
    "write_xml": "reader::WriteXml::write_xml",
}
CONSUME_FAIL = ("Result::<T, E>::expect", "Result::<T, E>::unwrap")
IDENT = M.IDENTITY_CALLS + ("ops::Try::branch", "Result::<T, E>::expect", "Result::<T, E>::unwrap", "Option::<T>::ok_or",
                            "Option::<T>::map", "Path::to_path_buf", "Result::<T, E>::map_err", "Result::<T, E>::inspect_err", "Result::<T, E>::or_else")


def sp(B, bb):
    return B.term(bb).get("sp", "?")


def _err_arm_exits_nonzero(B, bb):
    """`match step() { Ok(..) => .., Err(e) => { report(e); code } }` in a `main` that answers with an `ExitCode`: the discriminant read
    in block bb is switched on, and on every path from the Err arm the value main returns is `ExitCode::from(<constant other than 0>)`
    — never `ExitCode::SUCCESS` — or the process is ended with `process::exit(<constant other than 0>)`. -> the blocks of the Err
    arm when that holds, else None."""
    dl = None
    for st in B.blocks[bb]["stmts"]:
        if st["k"] == "assign" and st["rv"]["k"] == "discr" and not st["p"].get("proj"):
            dl = st["p"]["l"]
    if dl is None:
        return None
    sw = None
    for x in sorted(B.reachable_from(bb)):
        t = B.term(x)
        if t.get("k") == "switch" and t["discr"].get("k") in ("copy", "move") and t["discr"]["p"]["l"] == dl:
            sw = t
            break
    if sw is None:
        return None
    ok_arm = [b2 for v, b2 in sw["targets"] if v == 0]
    err_arm = [b2 for v, b2 in sw["targets"] if v == 1]
    if not err_arm:
        err_arm = [sw["otherwise"]] if ok_arm and sw.get("otherwise") is not None else []
    if not ok_arm:
        ok_arm = [sw["otherwise"]] if err_arm and sw.get("otherwise") is not None else []
    if not err_arm or not ok_arm:
        return None
    region = B.reachable_from(err_arm[0], avoid=ok_arm)
    only_err = region - B.reachable_from(ok_arm[0], avoid=err_arm)     # (not the code behind the join)
    if "ExitCode" not in B.local_ty(0):
        # a main without an answer: the arm has to end the process itself
        ends = [x for x in only_err if B.term(x).get("k") == "call" and (M.Body.callee_decl(B.term(x)) or "").endswith("process::exit")]
        good = bool(ends) and all(_nonzero_const(B, B.term(x)["args"][0]) for x in ends) and all(
            B.term(x).get("k") != "return" for x in only_err) and all(B.term(x).get("target") is None for x in ends)
        return only_err if good else None
    codes = []
    for x in only_err:
        for st in B.blocks[x]["stmts"]:
            if st["k"] == "assign" and st["p"]["l"] == 0 and not st["p"].get("proj"):
                codes.append(st["rv"])
        t = B.term(x)
        if t.get("k") == "call" and t["dest"]["l"] == 0 and not t["dest"].get("proj"):
            codes.append(("call", t))
    if not codes:
        return None
    for c in codes:
        if isinstance(c, tuple):
            os_ = [M.Origin("call", term=c[1], bb=None)]
        elif c["k"] == "use":
            os_ = M.trace(B, c["op"], ())
        else:
            return None
        for o in os_:
            if not (o.kind == "call" and (M.Body.callee_decl(o.term) or "").endswith(("convert::From::from", "ExitCode::from")) and o.term.get("args")
                    and "ExitCode" in B.local_ty(o.term["dest"]["l"]) and _nonzero_const(B, o.term["args"][0])):
                return None
    return only_err


def _nonzero_const(B, op):
    os_ = M.trace(B, op)
    return bool(os_) and all(o.kind == "const" and isinstance(o.const.get("bits"), int) and o.const["bits"] != 0 for o in os_)


def fails_stop(B, bb, t):
    """The Result of call t is consumed by expect/unwrap (panic => exit status 101) or `?` — or it is matched on and the Err arm
    answers with an exit status other than 0 (what the arm does with the error value besides — printing it — is its own business)."""
    kinds = M.result_flow(B, bb, t)

    def bare(k):
        while k.startswith("mapped:"):
            k = k[len("mapped:"):]
        return k
    arms = []
    matched = [(k, d) for k, d in kinds if bare(k) == "matched" and isinstance(d, int)]
    inner = []
    for k, d in matched:
        r = _err_arm_exits_nonzero(B, d)
        if r is not None:
            arms.append(r)
    for k, d in matched:
        if _err_arm_exits_nonzero(B, d) is None:
            if any(d in a for a in arms):
                inner.append(d)      # a match on the error value inside a failing arm (which kind of failure it is)
            else:
                return False, kinds
    rest = []
    for k, d in kinds:
        if bare(k) == "matched" and isinstance(d, int):
            continue
        if arms and bare(k) in ("passed", "other", "wrapped", "stored") and isinstance(d, tuple) and d and any(d[0] in a for a in arms):
            continue        # what the failing arm does with the error value
        if arms and bare(k) in ("wrapped",) and any(d in a for a in arms if isinstance(d, int)):
            continue
        rest.append((k, d))
    ok = bool(kinds) and all(bare(k) in ("unwrapped", "propagated", "returned") for k, _ in rest) and (bool(rest) or bool(arms))
    return ok, kinds


def success_block(B, bb, t):
    """First block that is only reached when call t succeeded (after expect/unwrap or the Continue arm of `?`)."""
    c = M.success_continuation(B, bb, t)
    if c is not None:
        return c
    dest = t["dest"]
    if dest.get("proj"):
        return None
    for (ubb, where, j, x) in M.uses_of_local(B, dest["l"]):
        if where == "term" and x.get("k") == "call" and (M.Body.callee_decl(x) or "").endswith(CONSUME_FAIL):
            return x.get("target")
    return None


def run(ck, F):
    ck.explanation = (
        "MIR analysis of zeep::main and of utils::read_input_file_and_xsd_files_at_path: every call that can create, truncate or "
        "replace a file is located (type-resolved inventory with a positive control) and must be dominated by the success "
        "continuations of all fallible generation steps; every Result in main must end in expect/unwrap/`?`; the output path and "
        "the bytes written are traced (def-use) to the --output argument / with_extension(\"rs\") and to one write_xml of the document "
        "returned by read_xml; the directory scan must guard the empty parent. Nothing is executed.")
    ck.assumptions = ["a panic in main (expect) terminates the process with a non-zero status",
                      "std::fs::write / File::create truncate an existing file",
                      "clap's get_one returns the argument text unchanged"]
    ck.rule("R1", "effect ordering: every output-touching call (File::create, fs::write, rename, remove, OpenOptions::open, copy) is "
                  "dominated by the success of: reading the inputs, read_xml, and write_xml into a non-file sink")
    ck.rule("R2", "failure => non-zero exit: every Result produced in main is consumed by expect/unwrap/`?`")
    ck.rule("R3", "output path = --output argument, else Path::with_extension(input, \"rs\")")
    ck.rule("R4", "the bytes written are those of one write_xml of the document returned by read_xml on the files of the input path")
    ck.rule("R5", "the sibling scan uses Path::parent only through an emptiness guard (bare file name => current directory)")
    ck.rule("R6", "no stale tail: the output is written with truncation (fs::write / File::create)")
    _CONSTS.clear()
    for cr_ in (F.bin, F.lib):
        for c_ in cr_.items.get("consts", []):
            if isinstance(c_.get("value"), str):
                _CONSTS[c_["path"]] = c_["value"]
    mb = F.bin.body("main")
    if mb is None or not mb.get("mir"):
        ck.undecided("R1", "main", "-", "zeep::main not found")
        return
    # main with the binary's own helper functions inlined: where a step sits (main or a helper it calls) does not matter
    B = I.inlined_body(F.bin, "main")
    ck.count("main blocks (helpers inlined)", len(B.reach))
    ck.count("helper functions inlined into main", len(B.fact.get("inlined", [])))
    # generation steps
    steps = {}
    for name, path in GEN_STEPS.items():
        cs = B.calls_to(path)
        if len(cs) != 1:
            ck.undecided("R1", f"step:{name}", mb["span"], f"expected exactly one call of {path} in main, found {len(cs)}", fn="main")
            continue
        steps[name] = cs[0]
    # R2
    n_res = 0
    for bb, t in B.calls():
        dty = B.local_ty(t["dest"]["l"]) if not t["dest"].get("proj") else ""
        if dty.startswith("std::result::Result<") and not (M.Body.callee_decl(t) or "").endswith(("ops::Try::branch",)):
            n_res += 1
            ok, kinds = fails_stop(B, bb, t)
            d = M.Body.callee_decl(t)
            if ok:
                ck.ok("R2", f"{d}", sp(B, bb), f"Result of {d} ends in {sorted({k for k, _ in kinds})}", fn="main")
            else:
                ck.violation("R2", f"{d}", sp(B, bb), f"a failure of {d} does not stop the program: result is {sorted({k for k, _ in kinds})}", fn="main")
    ck.floor("R2", "Result-producing calls in main", n_res, 2)
    # write_xml sink must not be a file
    sink_is_file = None
    if "write_xml" in steps:
        bb, t = steps["write_xml"]
        sink_ty = ""
        for o in M.trace(B, t["args"][1], ()):
            l = getattr(o, "local", None)
            if o.kind == "call":
                sink_ty = B.local_ty(o.term["dest"]["l"])
            elif l is not None:
                sink_ty = B.local_ty(l)
        g = (t.get("func") or {}).get("gargs") or []
        sink_ty = sink_ty or (g[1] if len(g) > 1 else "")
        sink_is_file = "std::fs::File" in sink_ty or any("std::fs::File" in x for x in g)
        if sink_is_file:
            ck.violation("R1", "sink-is-file", sp(B, bb),
                         "write_xml writes straight into the output file: a failure while writing leaves a truncated/partial output", fn="main")
        else:
            ck.ok("R1", "sink-in-memory", sp(B, bb), f"write_xml writes into {sink_ty or g}", fn="main")
    # R1 ordering
    effects = []
    for bb, t in B.calls():
        decl = M.Body.callee_decl(t) or ""
        if decl in scans.FS_WRITE:
            effects.append(("main", sp(B, bb), decl, bb))
    inlined_fns = {"main"} | {p for p, _ in B.fact.get("inlined", [])}
    for (fn, site, decl, bb) in scans.scan_fs_effects(F.bin):
        if fn not in inlined_fns:
            ck.violation("R1", f"{decl}:outside-main:{fn}", site,
                         f"{decl} is called in `{fn}`, which is not part of main's straight-line flow (closure or recursive function): its "
                         f"order relative to the generation steps cannot be established", fn=fn)
    ck.floor("R1", "output-touching calls in main", len(effects), 1)
    for (fn, site, decl, ebb) in effects:
        for name, (sbb, st) in steps.items():
            c = success_block(B, sbb, st)
            if c is not None and B.dominates(c, ebb) and ebb != sbb:
                ck.ok("R1", f"{decl}:after:{name}", site, f"{decl} only runs after `{name}` succeeded", fn="main")
            else:
                ck.violation("R1", f"{decl}:after:{name}", site,
                             f"{decl} can run before `{name}` has succeeded: a failing run destroys or truncates an existing output file", fn="main")
        if decl == "std::fs::OpenOptions::open":
            # the output holds the generated bytes and nothing else: the file is opened empty (truncated, or newly created), not appended to
            fl = scans.open_options_flags(B, B.term(ebb))
            if fl is None:
                ck.undecided("R6", "open-options", site, "how the output file is opened (the OpenOptions builder chain) could not be followed", fn="main")
            elif fl.get("append") is not False and "append" in fl:
                ck.violation("R6", "output-opened-empty", site, "the output file is opened for appending: what an earlier run wrote stays in front of the generated code", fn="main")
            elif fl.get("truncate") is True or fl.get("create_new") is True:
                ck.ok("R6", "output-opened-empty", site, "the output file is opened truncated / newly created", fn="main")
            else:
                ck.violation("R6", "output-opened-empty", site,
                             "the output file is opened for writing without `truncate(true)`: when the file exists and is longer than the generated code, the tail "
                             "of the old content stays behind it — the bytes of the output depend on what an earlier run left", fn="main")
        elif decl not in ("std::fs::write", "std::fs::File::create", "std::fs::rename"):
            ck.violation("R6", f"{decl}", site, f"unexpected file-system effect {decl} in main", fn="main")
    # positive control for the scanner
    ctl = factsmod.controls()
    if {h[0] for h in scans.scan_fs_effects(ctl)} == {"c17_create_before_read"}:
        ck.ok("R1", "positive-control", "engine/controls/src/lib.rs", "fs-effect scanner reports the control instance")
    else:
        ck.undecided("R1", "positive-control", "engine/controls/src/lib.rs", "fs-effect scanner does not report the control instance")
    # R3 / R4 on the writing call
    writes = [e for e in effects if e[2] in ("std::fs::write", "std::fs::File::create")]
    for (fn, site, decl, ebb) in writes:
        t = B.term(ebb)
        rule_output_path(ck, F, B, t, site)
        if decl == "std::fs::write" and "write_xml" in steps:
            data = M.trace(B, t["args"][1], IDENT)
            wbb, wt = steps["write_xml"]
            sink = M.trace(B, wt["args"][1], IDENT)
            same = {getattr(o, "local", ("c", getattr(o, "bb", None))) for o in data} & {
                getattr(o, "local", ("c", getattr(o, "bb", None))) for o in sink}
            data_roots = {(o.kind, getattr(o, "bb", None)) for o in data}
            sink_roots = {(o.kind, getattr(o, "bb", None)) for o in sink}
            if data_roots and data_roots == sink_roots:
                ck.ok("R4", "bytes=write_xml-buffer", site, "the bytes written are the buffer filled by write_xml", fn="main")
            else:
                ck.violation("R4", "bytes=write_xml-buffer", site,
                             f"the bytes written do not (only) come from the buffer filled by write_xml ({data} vs {sink})", fn="main")
            # other mutations of the buffer between write_xml and fs::write
            buf_local = [o for o in sink if o.kind == "call"]
    if "write_xml" in steps and "read_xml" in steps and "read inputs" in steps:
        wbb, wt = steps["write_xml"]
        doc = M.trace(B, wt["args"][0], IDENT)
        rbb, rt = steps["read_xml"]
        if doc and all(o.kind == "call" and o.bb == rbb for o in doc):
            files = M.trace(B, rt["args"][0], IDENT)
            ibb, it = steps["read inputs"]
            if files and all(o.kind == "call" and o.bb == ibb for o in files):
                inp = M.trace(B, it["args"][0], IDENT)
                inp = M.trace(B, it["args"][0], PATH_IDENT)
                inp_ok = _input_origins(B, inp)
                if inp_ok:
                    ck.ok("R4", "document-chain", sp(B, wbb), "write_xml(read_xml(read_input_files(Path::new(--input))))", fn="main")
                else:
                    ck.violation("R4", "input-path", sp(B, ibb), "the input files are not read from Path::new(<--input argument>)", fn="main")
            else:
                ck.violation("R4", "files-chain", sp(B, rbb), "read_xml is not applied to the files returned for the input path", fn="main")
        else:
            ck.violation("R4", "document-chain", sp(B, wbb), "write_xml is not applied to the document returned by read_xml", fn="main")
    # R5
    ub = F.lib.body("utils::read_input_file_and_xsd_files_at_path")
    if ub is None:
        ck.undecided("R5", "utils", "-", "utils function not found")
        return
    UB = I.inlined_body(F.lib, ub["path"], stop=lambda p: p.startswith(("reader::", "<reader::", "model::", "<model::", "error::")))
    rds = UB.calls_to("std::path::Path::read_dir", "std::fs::read_dir")
    ck.floor("R5", "directory scans", len(rds), 1)
    through = M.IDENTITY_CALLS + ("ops::Try::branch", "Option::<T>::ok_or", "Option::<T>::filter", "Option::<T>::unwrap_or_else",
                                  "Option::<T>::unwrap_or", "Option::<T>::unwrap", "Option::<T>::expect", "Path::new", "PathBuf::as_path")
    for bb, t in rds:
        os_ = M.trace(UB, t["args"][0], through)
        parents = [o for o in os_ if o.kind == "call" and (M.Body.callee_decl(o.term) or "").endswith("Path::parent")]
        others = [o for o in os_ if o not in parents]
        if not parents:
            ck.ok("R5", "scan-dir", sp(UB, bb), f"directory scanned does not come from Path::parent ({os_})", fn=ub["path"])
            continue
        all_guarded = True
        for o in parents:
            guarded = fallback = False
            for st in o.steps:
                if st[0] != "call":
                    continue
                if st[1].endswith("Option::<T>::filter"):
                    cs = _closure_calls_lib(F, UB, UB.term(st[2])["args"][1])
                    if cs is not None and any(c.endswith("OsStr::is_empty") for c, _ in cs):
                        guarded = True
                if st[1].endswith(("Option::<T>::unwrap_or_else", "Option::<T>::unwrap_or")):
                    fallback = True
            if not guarded:
                pb = o.bb
                for ebb, et in UB.calls_to("std::ffi::OsStr::is_empty"):
                    src = M.trace(UB, et["args"][0], M.IDENTITY_CALLS + ("Path::as_os_str",))
                    if any(x.kind == "call" and x.bb == pb for x in src) and et.get("target") is not None:
                        sw = UB.term(et["target"])
                        if sw.get("k") == "switch":
                            nonempty = [tgt for v, tgt in sw["targets"] if v == 0]
                            # the parent payload may reach read_dir only through the non-empty arm
                            if nonempty and (bb not in UB.reachable_from(sw["otherwise"], avoid=nonempty) or others):
                                guarded = True
                fallback = fallback or bool(others)
            all_guarded = all_guarded and guarded and fallback
        if all_guarded:
            ck.ok("R5", "empty-parent-guard", sp(UB, bb), "parent() is used only when non-empty; otherwise a fixed directory", fn=ub["path"])
        else:
            ck.violation("R5", "empty-parent-guard", sp(UB, bb),
                         "the directory to scan is Path::parent(input) without an emptiness guard: a bare file name (`-i a.xsd`) has the "
                         "empty parent and read_dir(\"\") fails", fn=ub["path"])
    ck.ok("R6", "truncating-write", "-", "output written by " + ", ".join(sorted({e[2] for e in writes})) if writes else "no write")


PATH_IDENT = IDENT + ("Path::new", "PathBuf::from", "Path::to_path_buf", "Option::<T>::unwrap_or_default", "Option::<T>::unwrap_or_else",
                      "Option::<&T>::cloned", "Option::<T>::map", "Option::<T>::unwrap", "Option::<T>::expect", "Path::as_os_str",
                      "String::as_str", "PathBuf::as_path", "borrow::Borrow::borrow")
MODIFIERS = ("with_extension", "with_file_name", "Path::join", "PathBuf::push", "set_extension", "set_file_name", "with_added_extension")


def _is_get_one(B, o, arg):
    return o.kind == "call" and (M.Body.callee_decl(o.term) or "").endswith("ArgMatches::get_one") and _const_arg(B, o.term, arg)


def _none_arm_blocks(B, arg):
    """Entry blocks of the arms taken when the option returned by get_one(arg) is None (switches on its discriminant)."""
    out = []
    for i in sorted(B.reach):
        t = B.term(i)
        if t.get("k") != "switch":
            continue
        for o in M.trace(B, t["discr"], IDENT):
            if o.kind == "discr" and any(_is_get_one(B, x, arg) for x in M.trace_place(B, o.place, PATH_IDENT)):
                zero = [bb for v, bb in t["targets"] if v == 0]
                if not zero and any(v == 1 for v, _ in t["targets"]):
                    zero = [t["otherwise"]]
                # the arm must be entered from this switch only (a guard on the Some arm that falls through to the same
                # block makes it reachable with the option present)
                out += [bb for bb in zero if [p for p in B.pred[bb] if p in B.reach] == [i]]
    return out


EMPTY_DEFAULTS = ("PathBuf::new", "String::new", "default::Default::default")


def _input_origins(B, src):
    """the origins are the --input argument, possibly with the empty path/string as the value of the (unreachable) absent case"""
    got = [x for x in src if _is_get_one(B, x, "from_file")]
    rest = [x for x in src if x not in got]
    return bool(got) and all(x.kind == "call" and (M.Body.callee_decl(x.term) or "").endswith(EMPTY_DEFAULTS) for x in rest)


def _default_path(F, B, o):
    """o is a call origin `Path::with_extension(input, "rs")` with input traced to the --input argument"""
    if not (o.kind == "call" and (M.Body.callee_decl(o.term) or "").endswith("Path::with_extension")):
        return False
    if not _const_arg(B, o.term, "rs"):
        return False
    src = M.trace(B, o.term["args"][0], PATH_IDENT)
    return _input_origins(B, src)


def _closure_default(F, B, operand):
    """the closure passed as operand computes <input>.with_extension("rs") and nothing else path-like"""
    cs = _closure_calls(F, B, operand)
    return cs is not None and any(c.endswith("Path::with_extension") and "rs" in ss for c, ss in cs) and \
        not any(c.endswith(MODIFIERS) and not c.endswith("Path::with_extension") for c, _ in cs)


def _closure_keeps(F, B, operand):
    cs = _closure_calls(F, B, operand)
    if cs is None:
        # a function item used as the mapping (PathBuf::from, ToOwned::to_owned ..)
        for o in M.trace(B, operand, ()):
            if o.kind == "const" and not (o.const.get("fn_path") or "").endswith(MODIFIERS):
                return True
        return False
    return not any(c.endswith(MODIFIERS) for c, _ in cs)


def rule_output_path(ck, F, B, t, site):
    """R3: every origin of the path handed to the writing call is either the --output argument (unmodified) or
    <--input>.with_extension("rs"), the latter only on the flow where --output is absent."""
    origins = M.trace(B, t["args"][0], PATH_IDENT)
    none_arms = _none_arm_blocks(B, "to_file")
    seen_explicit = seen_default = False
    bad = []
    for o in origins:
        decl = (M.Body.callee_decl(o.term) or "") if o.kind == "call" else ""
        if _is_get_one(B, o, "to_file"):
            # reached through identity steps only; closures of Option::map on the way must not modify the path
            for st in o.steps:
                if st[0] == "call" and st[1].endswith("Option::<T>::map"):
                    mt = B.term(st[2])
                    if not _closure_keeps(F, B, mt["args"][1]):
                        bad.append(("explicit-path-modified", "the --output path is modified before use"))
            seen_explicit = True
        elif _default_path(F, B, o):
            if any(B.dominates(a, o.bb) for a in none_arms):
                seen_default = True
            elif any((st[0] == "call" and st[1].endswith(("unwrap_or", "unwrap_or_else"))) for st in o.steps):
                seen_default = True
            else:
                bad.append(("default-not-conditional", "<input>.with_extension(\"rs\") can be used although --output was given"))
        elif decl.endswith(("Option::<T>::map_or_else", "Option::<T>::map_or")):
            mt = o.term
            lazy = decl.endswith("map_or_else")
            opt = M.trace(B, mt["args"][0], PATH_IDENT)
            if not (opt and all(_is_get_one(B, x, "to_file") for x in opt)):
                bad.append(("output-arg", "the output path option is not the `to_file` (--output) argument"))
            dflt_ok = _closure_default(F, B, mt["args"][1]) if lazy else all(_default_path(F, B, x) for x in M.trace(B, mt["args"][1], PATH_IDENT))
            if not dflt_ok:
                bad.append(("default-extension", "the default output path is not <input>.with_extension(\"rs\")"))
            if not _closure_keeps(F, B, mt["args"][2]):
                bad.append(("explicit-path-modified", "the --output path is modified before use"))
            seen_explicit = seen_default = True
        elif decl.endswith(("Option::<T>::unwrap_or_else", "Option::<T>::unwrap_or")):
            mt = o.term
            opt = M.trace(B, mt["args"][0], PATH_IDENT)
            if not (opt and all(_is_get_one(B, x, "to_file") for x in opt)):
                bad.append(("output-arg", "the output path option is not the `to_file` (--output) argument"))
            dflt_ok = _closure_default(F, B, mt["args"][1]) if decl.endswith("unwrap_or_else") else \
                all(_default_path(F, B, x) for x in M.trace(B, mt["args"][1], PATH_IDENT))
            if not dflt_ok:
                bad.append(("default-extension", "the default output path is not <input>.with_extension(\"rs\")"))
            seen_explicit = seen_default = True
        else:
            bad.append(("output-path-source", f"output path originates from {o!r}, not from --output | <input>.with_extension(\"rs\")"))
    if not seen_explicit and not bad:
        bad.append(("output-arg", "the --output argument never reaches the output path"))
    if not seen_default and not bad:
        bad.append(("default-extension", "without --output the path is not <input>.with_extension(\"rs\")"))
    if bad:
        for key, msg in sorted(set(bad)):
            ck.violation("R3", key, site, msg, fn="main")
    else:
        ck.ok("R3", "output-path", site, "output path = --output, else input.with_extension(\"rs\")", fn="main")


_CONSTS = {}   # named string constants of the analysed crates: path -> value (filled in run)


def _const_text(c):
    """the text of a constant operand: a literal, or a named `const X: &str` evaluated by the compiler"""
    if c.get("str") is not None:
        return c["str"]
    name = c.get("uneval")
    if name:
        hits = [v for p_, v in _CONSTS.items() if p_ == name or p_.endswith("::" + name) or name.endswith("::" + p_)]
        if len(set(hits)) == 1:
            return hits[0]
    return None


def _const_arg(B, t, text):
    for a in t["args"]:
        for o in M.trace(B, a, M.IDENTITY_CALLS):
            if o.kind == "const" and _const_text(o.const) == text:
                return True
    return False


def _closure_calls_lib(F, B, operand):
    return _closure_calls(F, B, operand, crate=F.lib)


def _closure_calls(F, B, operand, crate=None):
    """[(callee decl, [string constants passed])] of a closure literal passed as operand."""
    for o in M.trace(B, operand, ()):
        if o.kind == "aggregate" and o.rv.get("closure"):
            cb = (crate or F.bin).body(o.rv["closure"])
            if cb is None or not cb.get("mir"):
                return None
            CB = M.Body(cb)
            out = []
            for bb, t in CB.calls():
                consts = []
                for a in t["args"]:
                    for x in M.trace(CB, a, M.IDENTITY_CALLS):
                        if x.kind == "const" and x.const.get("str") is not None:
                            consts.append(x.const["str"])
                out.append((M.Body.callee_decl(t) or "", consts))
            return out
    return None
