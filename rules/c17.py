"""C17 — CLI: result depends on file contents only; failures keep the old output."""
from engine.rulekit import facts as factsmod
from engine.rulekit import mir as M
from engine.rulekit import scans

GEN_STEPS = {
    "read inputs": "zeep_lib::utils::read_input_file_and_xsd_files_at_path",
    "read_xml": "zeep_lib::reader::XmlReader::read_xml",
    "write_xml": "reader::WriteXml::write_xml",
}
CONSUME_FAIL = ("Result::<T, E>::expect", "Result::<T, E>::unwrap")
IDENT = M.IDENTITY_CALLS + ("ops::Try::branch", "Result::<T, E>::expect", "Result::<T, E>::unwrap", "Option::<T>::ok_or",
                            "Option::<T>::map", "Path::to_path_buf")


def sp(B, bb):
    return B.term(bb).get("sp", "?")


def fails_stop(B, bb, t):
    """The Result of call t is consumed by expect/unwrap (panic => exit status 101) or `?`."""
    kinds = M.result_flow(B, bb, t)
    ok = bool(kinds) and all(k in ("unwrapped", "propagated", "returned") for k, _ in kinds)
    return ok, kinds


def success_block(B, bb, t):
    """First block that is only reached when call t succeeded (after expect/unwrap or the Continue arm of `?`)."""
    c = M.success_continuation(B, bb, t)
    if c is not None:
        return c
    dest = t["dest"]
    if dest.get("proj"):
        return None
    for (ubb, where, j, x) in M.uses_of_local(B, dest["l"]):
        if where == "term" and x.get("k") == "call" and (M.Body.callee_decl(x) or "").endswith(CONSUME_FAIL):
            return x.get("target")
    return None


def run(ck, F):
    ck.explanation = (
        "MIR analysis of zeep::main and of utils::read_input_file_and_xsd_files_at_path: every call that can create, truncate or "
        "replace a file is located (type-resolved inventory with a positive control) and must be dominated by the success "
        "continuations of all fallible generation steps; every Result in main must end in expect/unwrap/`?`; the output path and "
        "the bytes written are traced (def-use) to the --output argument / with_extension(\"rs\") and to one write_xml of the document "
        "returned by read_xml; the directory scan must guard the empty parent. Nothing is executed.")
    ck.assumptions = ["a panic in main (expect) terminates the process with a non-zero status",
                      "std::fs::write / File::create truncate an existing file",
                      "clap's get_one returns the argument text unchanged"]
    ck.rule("R1", "effect ordering: every output-touching call (File::create, fs::write, rename, remove, OpenOptions::open, copy) is "
                  "dominated by the success of: reading the inputs, read_xml, and write_xml into a non-file sink")
    ck.rule("R2", "failure => non-zero exit: every Result produced in main is consumed by expect/unwrap/`?`")
    ck.rule("R3", "output path = --output argument, else Path::with_extension(input, \"rs\")")
    ck.rule("R4", "the bytes written are those of one write_xml of the document returned by read_xml on the files of the input path")
    ck.rule("R5", "the sibling scan uses Path::parent only through an emptiness guard (bare file name => current directory)")
    ck.rule("R6", "no stale tail: the output is written with truncation (fs::write / File::create)")
    mb = F.bin.body("main")
    if mb is None or not mb.get("mir"):
        ck.undecided("R1", "main", "-", "zeep::main not found")
        return
    B = M.Body(mb)
    ck.count("main blocks", len(B.reach))
    # generation steps
    steps = {}
    for name, path in GEN_STEPS.items():
        cs = B.calls_to(path)
        if len(cs) != 1:
            ck.undecided("R1", f"step:{name}", mb["span"], f"expected exactly one call of {path} in main, found {len(cs)}", fn="main")
            continue
        steps[name] = cs[0]
    # R2
    n_res = 0
    for bb, t in B.calls():
        dty = B.local_ty(t["dest"]["l"]) if not t["dest"].get("proj") else ""
        if dty.startswith("std::result::Result<") and not (M.Body.callee_decl(t) or "").endswith(("ops::Try::branch",)):
            n_res += 1
            ok, kinds = fails_stop(B, bb, t)
            d = M.Body.callee_decl(t)
            if ok:
                ck.ok("R2", f"{d}", sp(B, bb), f"Result of {d} ends in {sorted({k for k, _ in kinds})}", fn="main")
            else:
                ck.violation("R2", f"{d}", sp(B, bb), f"a failure of {d} does not stop the program: result is {sorted({k for k, _ in kinds})}", fn="main")
    ck.floor("R2", "Result-producing calls in main", n_res, 4)
    # write_xml sink must not be a file
    sink_is_file = None
    if "write_xml" in steps:
        bb, t = steps["write_xml"]
        sink_ty = ""
        for o in M.trace(B, t["args"][1], ()):
            l = getattr(o, "local", None)
            if o.kind == "call":
                sink_ty = B.local_ty(o.term["dest"]["l"])
            elif l is not None:
                sink_ty = B.local_ty(l)
        g = (t.get("func") or {}).get("gargs") or []
        sink_ty = sink_ty or (g[1] if len(g) > 1 else "")
        sink_is_file = "std::fs::File" in sink_ty or any("std::fs::File" in x for x in g)
        if sink_is_file:
            ck.violation("R1", "sink-is-file", sp(B, bb),
                         "write_xml writes straight into the output file: a failure while writing leaves a truncated/partial output", fn="main")
        else:
            ck.ok("R1", "sink-in-memory", sp(B, bb), f"write_xml writes into {sink_ty or g}", fn="main")
    # R1 ordering
    effects = [(fn, site, decl, bb) for (fn, site, decl, bb) in scans.scan_fs_effects(F.bin) if fn == "main"]
    ck.floor("R1", "output-touching calls in main", len(effects), 1)
    for (fn, site, decl, ebb) in effects:
        for name, (sbb, st) in steps.items():
            c = success_block(B, sbb, st)
            if c is not None and B.dominates(c, ebb) and ebb != sbb:
                ck.ok("R1", f"{decl}:after:{name}", site, f"{decl} only runs after `{name}` succeeded", fn="main")
            else:
                ck.violation("R1", f"{decl}:after:{name}", site,
                             f"{decl} can run before `{name}` has succeeded: a failing run destroys or truncates an existing output file", fn="main")
        if decl not in ("std::fs::write", "std::fs::File::create", "std::fs::rename"):
            ck.violation("R6", f"{decl}", site, f"unexpected file-system effect {decl} in main", fn="main")
    # positive control for the scanner
    ctl = factsmod.controls()
    if {h[0] for h in scans.scan_fs_effects(ctl)} == {"c17_create_before_read"}:
        ck.ok("R1", "positive-control", "engine/controls/src/lib.rs", "fs-effect scanner reports the control instance")
    else:
        ck.undecided("R1", "positive-control", "engine/controls/src/lib.rs", "fs-effect scanner does not report the control instance")
    # R3 / R4 on the writing call
    writes = [e for e in effects if e[2] in ("std::fs::write", "std::fs::File::create")]
    for (fn, site, decl, ebb) in writes:
        t = B.term(ebb)
        path_os = M.trace(B, t["args"][0], IDENT)
        kinds = []
        for o in path_os:
            if o.kind == "call" and (M.Body.callee_decl(o.term) or "").endswith("Option::<T>::map_or_else"):
                mt = o.term
                # arg0: Option from get_one("to_file"); arg1: default closure; arg2: mapping closure
                opt = M.trace(B, mt["args"][0], IDENT)
                opt_ok = all(x.kind == "call" and (M.Body.callee_decl(x.term) or "").endswith("ArgMatches::get_one") and
                             _const_arg(B, x.term, "to_file") for x in opt) and bool(opt)
                dflt = _closure_calls(F, B, mt["args"][1])
                mapc = _closure_calls(F, B, mt["args"][2])
                dflt_ok = dflt is not None and any(c.endswith("Path::with_extension") for c, _ in dflt) and any(
                    s == "rs" for _, ss in dflt for s in ss)
                map_ok = mapc is not None and not any(c.endswith(("with_extension", "with_file_name", "join")) for c, _ in mapc)
                kinds.append(opt_ok and dflt_ok and map_ok)
                if not opt_ok:
                    ck.violation("R3", "output-arg", site, "the output path option is not the `to_file` (--output) argument", fn="main")
                if not dflt_ok:
                    ck.violation("R3", "default-extension", site, "the default output path is not <input>.with_extension(\"rs\")", fn="main")
                if not map_ok:
                    ck.violation("R3", "explicit-path-modified", site, "the --output path is modified before use", fn="main")
            else:
                kinds.append(False)
                ck.violation("R3", "output-path-source", site, f"output path originates from {o!r}, not from map_or_else(--output | input.rs)", fn="main")
        if kinds and all(kinds):
            ck.ok("R3", "output-path", site, "output path = --output, else input.with_extension(\"rs\")", fn="main")
        if decl == "std::fs::write" and "write_xml" in steps:
            data = M.trace(B, t["args"][1], IDENT)
            wbb, wt = steps["write_xml"]
            sink = M.trace(B, wt["args"][1], IDENT)
            same = {getattr(o, "local", ("c", getattr(o, "bb", None))) for o in data} & {
                getattr(o, "local", ("c", getattr(o, "bb", None))) for o in sink}
            data_roots = {(o.kind, getattr(o, "bb", None)) for o in data}
            sink_roots = {(o.kind, getattr(o, "bb", None)) for o in sink}
            if data_roots and data_roots == sink_roots:
                ck.ok("R4", "bytes=write_xml-buffer", site, "the bytes written are the buffer filled by write_xml", fn="main")
            else:
                ck.violation("R4", "bytes=write_xml-buffer", site,
                             f"the bytes written do not (only) come from the buffer filled by write_xml ({data} vs {sink})", fn="main")
            # other mutations of the buffer between write_xml and fs::write
            buf_local = [o for o in sink if o.kind == "call"]
    if "write_xml" in steps and "read_xml" in steps and "read inputs" in steps:
        wbb, wt = steps["write_xml"]
        doc = M.trace(B, wt["args"][0], IDENT)
        rbb, rt = steps["read_xml"]
        if doc and all(o.kind == "call" and o.bb == rbb for o in doc):
            files = M.trace(B, rt["args"][0], IDENT)
            ibb, it = steps["read inputs"]
            if files and all(o.kind == "call" and o.bb == ibb for o in files):
                inp = M.trace(B, it["args"][0], IDENT)
                inp_ok = bool(inp) and all(o.kind == "call" and (M.Body.callee_decl(o.term) or "").endswith("Path::new") for o in inp)
                if inp_ok:
                    ck.ok("R4", "document-chain", sp(B, wbb), "write_xml(read_xml(read_input_files(Path::new(--input))))", fn="main")
                else:
                    ck.violation("R4", "input-path", sp(B, ibb), "the input files are not read from Path::new(<--input argument>)", fn="main")
            else:
                ck.violation("R4", "files-chain", sp(B, rbb), "read_xml is not applied to the files returned for the input path", fn="main")
        else:
            ck.violation("R4", "document-chain", sp(B, wbb), "write_xml is not applied to the document returned by read_xml", fn="main")
    # R5
    ub = F.lib.body("utils::read_input_file_and_xsd_files_at_path")
    if ub is None:
        ck.undecided("R5", "utils", "-", "utils function not found")
        return
    UB = M.Body(ub)
    rds = UB.calls_to("std::path::Path::read_dir", "std::fs::read_dir")
    ck.floor("R5", "directory scans", len(rds), 1)
    for bb, t in rds:
        os_ = M.trace(UB, t["args"][0], M.IDENTITY_CALLS + ("ops::Try::branch", "Option::<T>::ok_or"))
        parents = [o for o in os_ if o.kind == "call" and (M.Body.callee_decl(o.term) or "").endswith("Path::parent")]
        others = [o for o in os_ if o not in parents]
        if not parents:
            ck.ok("R5", "scan-dir", sp(UB, bb), f"directory scanned does not come from Path::parent ({os_})", fn=ub["path"])
            continue
        guarded = False
        for pb in {o.bb for o in parents}:
            for ebb, et in UB.calls_to("std::ffi::OsStr::is_empty", "std::path::Path::as_os_str"):
                if not (M.Body.callee_decl(et) or "").endswith("is_empty"):
                    continue
                src = M.trace(UB, et["args"][0], M.IDENTITY_CALLS + ("Path::as_os_str",))
                if any(o.kind == "call" and o.bb == pb for o in src) and et.get("target") is not None:
                    sw = UB.term(et["target"])
                    if sw.get("k") == "switch":
                        nonempty = [tgt for v, tgt in sw["targets"] if v == 0]
                        # the parent payload may reach read_dir only through the non-empty arm
                        if nonempty and bb not in UB.reachable_from(sw["otherwise"], avoid=nonempty) or (
                                nonempty and others):
                            guarded = True
        if guarded and others:
            ck.ok("R5", "empty-parent-guard", sp(UB, bb), "parent() is used only when non-empty; otherwise a fixed directory", fn=ub["path"])
        else:
            ck.violation("R5", "empty-parent-guard", sp(UB, bb),
                         "the directory to scan is Path::parent(input) without an emptiness guard: a bare file name (`-i a.xsd`) has the "
                         "empty parent and read_dir(\"\") fails", fn=ub["path"])
    ck.ok("R6", "truncating-write", "-", "output written by " + ", ".join(sorted({e[2] for e in writes})) if writes else "no write")


def _const_arg(B, t, text):
    for a in t["args"]:
        for o in M.trace(B, a, M.IDENTITY_CALLS):
            if o.kind == "const" and (o.const.get("str") == text):
                return True
    return False


def _closure_calls(F, B, operand):
    """[(callee decl, [string constants passed])] of a closure literal passed as operand."""
    for o in M.trace(B, operand, ()):
        if o.kind == "aggregate" and o.rv.get("closure"):
            cb = F.bin.body(o.rv["closure"])
            if cb is None or not cb.get("mir"):
                return None
            CB = M.Body(cb)
            out = []
            for bb, t in CB.calls():
                consts = []
                for a in t["args"]:
                    for x in M.trace(CB, a, M.IDENTITY_CALLS):
                        if x.kind == "const" and x.const.get("str") is not None:
                            consts.append(x.const["str"])
                out.append((M.Body.callee_decl(t) or "", consts))
            return out
    return None
