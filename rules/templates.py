"""Shared views over the output grammar (engine/rulekit/og.py) used by the template rules of
C01, C03, C05, C07, C14, C15, C18."""
import copy
import re

from engine.rulekit import hir as Hh
from engine.rulekit import og

_CACHE = {}

FIELD_WRITER = "<model::field::Field as reader::WriteXml<W>>::write_xml"
HDR = "model::helpers::write_check_restrictions_header"
FTR = "model::helpers::write_check_restrictions_footer"
RESTR_WRITER = "<model::structures::restrictions::Restrictions as reader::WriteXml<W>>::write_xml"
ROOT = "<model::doc::RustDocument as reader::WriteXml<W>>::write_xml"


def extractor(F):
    if F.hash not in _CACHE:
        _CACHE[F.hash] = og.Extractor(F)
    return _CACHE[F.hash]


class IEmit:
    """An emit event after inlining (parameters substituted, contexts concatenated)."""

    def __init__(self, ev, parts, ctx, chain):
        self.kind = "emit"
        self.ev = ev
        self.fn = ev.fn
        self.parts = parts
        self.ctx = ctx
        self.chain = chain      # call chain (function paths) from the root of the inlining
        self.site = ev.site
        self.propagated = ev.propagated

    def text(self, hole=lambda i, nf, tr: "{" + og.nf_str(nf) + "}"):
        s = ""
        i = 0
        for p in self.parts:
            if p[0] == "lit":
                s += p[1]
            else:
                s += hole(i, p[1], p[2])
                i += 1
        return s

    def skeleton(self):
        return self.text(lambda i, nf, tr: "{}")

    def holes(self):
        return [(p[1], p[2], p[3]) for p in self.parts if p[0] == "hole"]


class ICall:
    def __init__(self, ev, callee, args, ctx, chain):
        self.kind = "call"
        self.ev = ev
        self.fn = ev.fn
        self.callee = callee
        self.args = args
        self.ctx = ctx
        self.chain = chain
        self.site = ev.site
        self.propagated = ev.propagated


def subst_parts(parts, mapping):
    out = []
    for p in parts:
        if p[0] == "lit":
            out.append(p)
        else:
            out.append(("hole", flatten_format(og.nf_subst(p[1], mapping))) + tuple(p[2:]))
    return tuple(out)


def flatten_format(nf):
    """format!("{}X", format!("{}Y", a)) == format!("{}YX", a): splice Display holes that are themselves formats."""
    if not isinstance(nf, tuple) or nf[0] != "format":
        return nf
    parts = []
    for p in nf[1]:
        if p[0] == "hole":
            inner = flatten_format(p[1])
            if inner[0] == "format" and p[2] == "display":
                parts.extend(inner[1])
                continue
            parts.append(("hole", inner) + tuple(p[2:]))
        else:
            parts.append(p)
    # merge adjacent literals
    merged = []
    for p in parts:
        if p[0] == "lit" and merged and merged[-1][0] == "lit":
            merged[-1] = ("lit", merged[-1][1] + p[1])
        else:
            merged.append(p)
    return ("format", tuple(merged))


def subst_ctx(ctx, mapping):
    out = []
    for c in ctx:
        if c[0] == "star":
            out.append(("star", og.nf_subst(c[1], mapping)))
        else:
            out.append(("alt", og.nf_subst(c[1], mapping), c[2]))
    return tuple(out)


def _ce(X):
    if getattr(X, "CE", None) is None:
        X.CE = og.CallExpander(X.F)
    return X.CE


def inline(X, fn, mapping=None, ctx=(), chain=(), depth=0, stop=()):
    """Yield IEmit / ICall events of `fn` with writer-function calls expanded in place.
    Calls to functions in `stop` are yielded as ICall and not expanded."""
    mapping = mapping or {}
    if depth > 10:
        raise og.Unrecognised(f"writer call chain too deep at {fn}")
    if fn in X.errors:
        raise X.errors[fn]
    for ev in X.events.get(fn, []):
        ectx = ctx + subst_ctx(ev.ctx, mapping)
        if not og.ctx_feasible(ectx):
            continue   # dead for this call: a branch on a literal None / Some(..) argument, or contradictory conditions
        if ev.kind == "emit":
            sp = subst_parts(ev.parts, mapping)
            if og.CANON and mapping:
                # a parameter that was substituted by a template-valued argument: canonical again
                for parts, extra in og.canon_parts(sp, _ce(X)):
                    yield IEmit(ev, parts, ectx + extra, chain + (fn,))
            else:
                yield IEmit(ev, sp, ectx, chain + (fn,))
        else:
            args = [og.nf_subst(a, mapping) for a in ev.args]
            if ev.callee in stop or ev.callee not in X.events:
                yield ICall(ev, ev.callee, args, ectx, chain + (fn,))
                continue
            yield ICall(ev, ev.callee, args, ectx, chain + (fn,))
            names = X.params.get(ev.callee, [])
            sub = {}
            for n, a in zip(names, args):
                if isinstance(n, tuple):
                    for j, nj in enumerate(n):      # a tuple pattern as parameter: its names are the components of the argument
                        sub[nj] = og.project(a, j, len(n)) if isinstance(a, tuple) else ("unknown", "tuple parameter")
                elif n is not None:
                    sub[n] = a
            yield from inline(X, ev.callee, sub, ectx, chain + (fn,), depth + 1, stop)


def ctx_str(ctx):
    return " | ".join((c[0] + ":" + og.nf_str(c[1]) + ("" if c[0] == "star" else "=" + str(c[2]))) for c in ctx)


def stars(ctx):
    return tuple(c[1] for c in ctx if c[0] == "star")


def alts(ctx):
    # (one decision met twice on the way — an `if let` around a value whose Display takes the same decision — is one decision)
    return tuple(dict.fromkeys((c[1], c[2]) for c in ctx if c[0] == "alt"))


# ---- struct groups ------------------------------------------------------------------------------

# a name in a template is a run of holes and identifier characters (`{}`, `{}Header`, `header`)
NAME = r"((?:\{\}|[A-Za-z0-9_#])+)"
RE_STRUCT_OPEN = re.compile(r"^\s*pub struct " + NAME + r" \{\n$")
RE_MEMBER = re.compile(r"^\s*pub " + NAME + r": (.*?),?\n$", re.S)
RE_CHECK = re.compile(r"^\s*self\." + NAME + r"\.check_restrictions\((.*?)\)(\?;)?\n$")


def _name_of(ev, m, group=1):
    """The name in a template (regex group over the skeleton) as a normal form: the hole's value when the name is one hole, a
    literal, or a format of the holes and literal pieces it is composed of."""
    a, b = m.span(group)
    pos = 0
    pieces = []
    for p in ev.parts:
        if p[0] == "lit":
            lo, hi = max(a, pos), min(b, pos + len(p[1]))
            if lo < hi:
                pieces.append(("lit", p[1][lo - pos:hi - pos]))
            pos += len(p[1])
        else:
            if a <= pos and pos + 2 <= b:
                pieces.append(p)
            pos += 2
    if len(pieces) == 1:
        return pieces[0][1] if pieces[0][0] == "hole" else ("lit", pieces[0][1])
    return ("format", tuple(pieces))


def option_cond(cond, branch):
    """(option value, present) when the condition taken on `branch` says that an Option is Some / None: `if let Some(..) = x`,
    `x.is_some()`, `x.is_none()`, `match x { None => .. }`, with negations. None for any other condition."""
    c = cond
    while isinstance(c, tuple) and c[0] == "not":
        c, branch = c[1], not branch
    if not isinstance(c, tuple):
        return None
    if c[0] == "islet":
        lab = c[1].rsplit("::", 1)[-1]
        if lab.startswith("Some("):
            return c[2], branch
        if lab == "None":
            return c[2], not branch
    if c[0] == "call" and c[2] and str(c[1]).rsplit("::", 1)[-1] in ("is_some", "is_none"):
        return c[2][0], branch == str(c[1]).endswith("is_some")
    return None


def type_kind_truth(cond, kind, CE=None):
    """Truth of a condition over a RustFieldType value for kind in {"String", "Other", "prim"}: understands is_string()/is_other()
    (as calls or expanded to `matches!`), variant patterns, not/and/or. None when the condition is about something else."""
    c = CE.expand(cond) if CE is not None else cond
    if not isinstance(c, tuple):
        return None
    if c[0] == "not":
        t = type_kind_truth(c[1], kind)
        return None if t is None else not t
    if c[0] == "binop" and c[1] in ("And", "Or"):
        a, b = type_kind_truth(c[2], kind), type_kind_truth(c[3], kind)
        if a is None or b is None:
            return None
        return (a and b) if c[1] == "And" else (a or b)
    if c[0] == "call" and str(c[1]).rsplit("::", 1)[-1] in ("is_string", "is_other"):
        return (kind == "String") if str(c[1]).endswith("is_string") else (kind == "Other")
    if c[0] == "islet":
        lab = c[1].rsplit("::", 1)[-1]
        name = lab.split("(")[0].split("{")[0].strip()
        if name == "String":
            return kind == "String"
        if name == "Other":
            return kind == "Other"
        if name in ("I8", "I16", "I32", "I64", "U8", "U16", "U32", "U64", "F32", "F64", "Bool"):
            return False if kind in ("String", "Other") else None
    return None


RE_NAME_RUN = re.compile(r"(?:\{\}|[A-Za-z0-9_])+")


def name_regions(ev):
    """Normal forms of all identifier-like runs of a template that contain a hole: (`{}`, `{}Header`, `mod_{}`)."""
    sk = ev.skeleton()
    out = []
    for m in RE_NAME_RUN.finditer(sk):
        if "{}" in m.group(0):
            out.append((_name_of(ev, m, 0), m.group(0)))
    return out


class Group:
    def __init__(self, fn):
        self.fn = fn
        self.open = None
        self.name = None
        self.members = []     # (ev, name_nf, ctx relative, type text)
        self.attrs = []       # attribute emits preceding members, in order, each attached to next member
        self.close = None
        self.header = None
        self.checks = []      # (ev, name_nf, ctx, arg text, has_try)
        self.footer = None
        self.pre = []         # emits between previous group and `pub struct` (derive / yaserde attrs / doc)
        self.body_emits = []  # every emit between open and close
        self.impl_emits = []  # every emit between header and footer


def _specialisation(X, fn):
    """{parameter name: normal form} for the parameters of the writer function `fn` that every call of it hands the same *computed*
    piece of text (`write_soap_operation(.., &yaserde_ns_header)` with `let yaserde_ns_header = namespaces_header(&self.target_namespaces)`
    made once in the caller): the piece is part of what `fn` writes, whoever put it together. A parameter that is handed a plain
    value (a member, a loop element, another parameter) stays the parameter it is."""
    sites = [ev for f_, evs in X.events.items() if f_ != fn for ev in evs if ev.kind == "call" and ev.callee == fn]
    names = X.params.get(fn, [])
    if not sites:
        return {}
    ce = _ce(X)

    def computed(v):
        if not isinstance(v, tuple):
            return False
        if v[0] in ("format", "joinmap", "list"):
            return True
        if v[0] == "call" and isinstance(v[1], str) and ce.summary(v[1]) is not None:
            x = ce.expand(v)
            return isinstance(x, tuple) and x[0] in ("format", "joinmap", "list")
        return False
    sub = {}
    for i, n in enumerate(names):
        if n is None or isinstance(n, tuple):
            continue
        vals = {ev.args[i] for ev in sites if i < len(ev.args)}
        if len(vals) == 1:
            v = next(iter(vals))
            if computed(v):
                sub[n] = v
    return sub


def struct_groups(X, fn):
    """Groups `pub struct N { members }` + `impl CheckRestrictions for N { checks }` in the inlined stream of fn."""
    groups = []
    cur = None
    state = "idle"
    pre = []
    for ev in inline(X, fn, mapping=_specialisation(X, fn), stop=()):
        if ev.kind == "emit":
            sk = ev.skeleton()
            m = RE_STRUCT_OPEN.match(sk)
            if m and state in ("idle",):
                cur = Group(fn)
                cur.open = ev
                cur.name = _name_of(ev, m, 1)
                cur.pre = pre
                pre = []
                state = "members"
                groups.append(cur)
                continue
            if state == "members":
                if sk.strip() == "}":
                    cur.close = ev
                    state = "after-struct"
                    continue
                cur.body_emits.append(ev)
                mm = RE_MEMBER.match(sk)
                if mm:
                    cur.members.append((ev, _name_of(ev, mm, 1), ev.ctx, mm.group(2)))
                continue
            if state == "impl":
                cur.impl_emits.append(ev)
                mc = RE_CHECK.match(sk)
                if mc:
                    cur.checks.append((ev, _name_of(ev, mc, 1), ev.ctx, mc.group(2), bool(mc.group(3))))
                continue
            if state in ("idle", "after-struct"):
                pre.append(ev)
        else:
            if ev.callee == HDR and state == "after-struct":
                cur.header = ev
                state = "impl"
            elif ev.callee == FTR and state == "impl":
                cur.footer = ev
                state = "idle"
                cur = None
    return groups


def reduce_alts(entries):
    """entries: list of (stars, alts(tuple of (cond, branch)), name). Drop alt conditions for which both branches
    are present with otherwise identical keys (exhaustive split), so that a member emitted in both arms of an
    `if let Some(ns)` compares equal to an unconditional check site."""
    cur = set(entries)
    changed = True
    while changed:
        changed = False
        for e in list(cur):
            st, al, name = e
            for i, (c, b) in enumerate(al):
                other = (st, al[:i] + ((c, not b),) + al[i + 1:], name)
                if other in cur:
                    cur.discard(e)
                    cur.discard(other)
                    cur.add((st, al[:i] + al[i + 1:], name))
                    changed = True
                    break
            if changed:
                break
    return cur


def relative_ctx(ctx, base):
    """Context of an event relative to the context of its group's `pub struct` line."""
    n = 0
    while n < len(base) and n < len(ctx) and ctx[n] == base[n]:
        n += 1
    return ctx[n:]


# ---- C07 template rules ---------------------------------------------------------------------------

def struct_emitters(X):
    """The functions in whose text a struct is read: the innermost function whose stream (writer helpers inlined) holds the whole
    group — `pub struct N {` .. `}` and, when there is one, the `impl CheckRestrictions for N` written through the header / footer
    helpers. A helper that writes only the definition (the impl being written by a sibling helper of the same caller) is read in the
    caller; a function that merely calls a function holding whole groups is not an emitter itself."""
    if getattr(X, "_struct_emitters", None) is not None:
        return X._struct_emitters
    streams, level = {}, {}
    for fn in X.events:
        try:
            evs = list(inline(X, fn))
        except og.Unrecognised:
            continue
        streams[fn] = evs
        # 0: no whole struct, 1: struct definition(s) only, 2: every struct definition is followed by its impl block
        state, n_open, n_impl = "idle", 0, 0
        for e in evs:
            if e.kind == "emit":
                sk = e.skeleton()
                if state in ("idle", "closed") and RE_STRUCT_OPEN.match(sk):
                    state = "open"
                    n_open += 1
                elif state == "open" and sk.strip() == "}":
                    state = "closed"
            elif e.kind == "call" and e.callee == HDR and state == "closed":
                state = "impl"
            elif e.kind == "call" and e.callee == FTR and state == "impl":
                state = "idle"
                n_impl += 1
        whole = n_open > 0 and state in ("idle", "closed")
        level[fn] = 0 if not whole else (2 if n_impl == n_open else 1)

    def opens(fn):
        return [e for e in streams[fn] if e.kind == "emit" and RE_STRUCT_OPEN.match(e.skeleton())]
    out = []
    for fn in streams:
        if level[fn] == 2 and any(not any(level.get(c) == 2 for c in e.chain[1:]) for e in opens(fn)):
            out.append(fn)
    covered = set()
    for fn in out:
        for e in streams[fn]:
            covered |= set(e.chain)
    for fn in streams:
        if level[fn] == 1 and fn not in covered and any(not any(level.get(c, 0) >= 1 for c in e.chain[1:]) for e in opens(fn)):
            out.append(fn)     # structs without a check impl (the service client)
    # an emitter whose whole text another emitter takes in (a private helper writing one of the caller's structs, handed the
    # names as parameters) is read in that caller's stream, where its parameters have values, and not on its own
    called = set()
    for fn in out:
        for e in streams[fn]:
            called |= {c for c in e.chain[1:] if c != fn}
    out = [fn for fn in out if fn not in called]

    # a function that is handed ready-made text for its templates (a `&str` / `String` parameter written as it is: the name of the
    # struct, the namespaces attribute) can only be read where that text is known: in its callers
    def needs_context(fn):
        for e in X.events.get(fn, []):
            if e.kind != "emit" or not e.skeleton().lstrip().startswith("#[yaserde("):
                continue     # (only what the attributes are made of: names handed over as parameters are read as they are)
            for (nf, tr, ty) in e.holes():
                t_ = (ty or "").replace("&", "").replace("mut ", "").strip()
                if isinstance(nf, tuple) and nf[0] == "param" and t_ in ("str", "std::string::String", "String") and nf[1] != "self":
                    return True
        return False
    callers_of = {}
    for fn, evs in streams.items():
        for e in X.events.get(fn, []):
            if e.kind == "call" and e.callee in X.events:
                callers_of.setdefault(e.callee, set()).add(fn)
    for _ in range(3):
        nxt, changed = [], False
        for fn in out:
            cs = sorted(c for c in callers_of.get(fn, ()) if c in streams and c != fn)
            if needs_context(fn) and cs:
                nxt += cs
                changed = True
            else:
                nxt.append(fn)
        out = list(dict.fromkeys(nxt))
        if not changed:
            break
    called = set()
    for fn in out:
        for e in streams[fn]:
            called |= {c for c in e.chain[1:] if c != fn}
    out = [fn for fn in out if fn not in called]
    X._struct_emitters = sorted(out)
    return X._struct_emitters


def c07_template_rules(ck, F):
    from rules import c07 as C07
    X = extractor(F)
    for fn, u in X.errors.items():
        ck.undecided("R3", f"unrecognised:{u.what[:60]}", Hh.sp(u.node) if u.node else "-",
                     f"{fn}: output grammar extraction failed: {u.what}", fn=fn)
    n_groups = 0
    for fn in struct_emitters(X):
        try:
            groups = struct_groups(X, fn)
        except og.Unrecognised as u:
            ck.undecided("R3", f"unrecognised:{u.what[:60]}", "-", f"{fn}: {u.what}", fn=fn)
            continue
        short = fn.rsplit("::", 1)[-1] if not fn.startswith("<") else fn
        for g in groups:
            n_groups += 1
            gname = og.nf_str(g.name)
            is_data = any("YaSerialize" in e.skeleton() for e in g.pre)
            if not is_data:
                n_groups -= 1
                continue  # not a serialized data type (e.g. the service client struct)
            if g.header is None or g.footer is None:
                ck.violation("R3", f"{gname}:no-impl", g.open.site,
                             f"struct template `{gname}` is not followed by an `impl CheckRestrictions` block: values of this type "
                             f"are never checked (the trait is required by every containing struct)", fn=short)
                continue
            base = g.open.ctx
            mem = reduce_alts([(stars(relative_ctx(c, base)), alts(relative_ctx(c, base)), n) for (_, n, c, _) in g.members])
            chk = reduce_alts([(stars(relative_ctx(c, base)), alts(relative_ctx(c, base)), n) for (_, n, c, _, _) in g.checks])
            for m in sorted(mem - chk, key=str):
                ck.violation("R3", f"{gname}:member-not-checked:{og.nf_str(m[2])}", g.open.site,
                             f"struct `{gname}`: member `{og.nf_str(m[2])}` (loops: {[og.nf_str(s) for s in m[0]]}) is emitted but no "
                             f"`self.<member>.check_restrictions(..)` is emitted for it over the same collection", fn=short)
            mem_names = {(m[0], m[2]) for m in mem}
            extra = [m for m in chk - mem if (m[0], m[2]) not in mem_names]
            for m in sorted(extra, key=str):
                ck.violation("R3", f"{gname}:check-without-member:{og.nf_str(m[2])}", g.open.site,
                             f"struct `{gname}`: a check is emitted for `{og.nf_str(m[2])}` which is not an emitted member "
                             f"(loops: {[og.nf_str(s) for s in m[0]]})", fn=short)
            if not (mem - chk) and not extra and mem:
                ck.ok("R3", f"{gname}:members=checks", g.open.site,
                      f"struct `{gname}`: {len(mem)} member template(s) and check template(s) range over the same collections", fn=short)
            if not mem:
                ck.violation("R3", f"{gname}:no-members", g.open.site, f"struct `{gname}`: no member templates recognised", fn=short)
            # each check is propagated (`?;`) or is the returned tail expression
            tails = [c for c in g.checks if not c[4]]
            last = g.impl_emits[-1] if g.impl_emits else None
            for (ev, n, c, arg, has_try) in g.checks:
                if has_try:
                    continue
                if ev is last and not stars(relative_ctx(c, base)):
                    continue
                ck.violation("R3", f"{gname}:check-result-dropped:{og.nf_str(n)}", ev.site,
                             f"struct `{gname}`: the emitted check of `{og.nf_str(n)}` is neither propagated with `?` nor the returned "
                             f"expression", fn=short)
            # R5: the parameter is honoured
            sigs = []
            for e in g.impl_emits:
                ms = re.search(r"fn check_restrictions\(&self, (\w+): Option<", e.skeleton())
                if ms:
                    br = [oc[1] for oc in (option_cond(c[1], c[2]) for c in relative_ctx(e.ctx, g.header.ctx) if c[0] == "alt") if oc is not None]
                    sigs.append((ms.group(1), br[0] if br else None, e))
            third = g.header.args[2] if len(g.header.args) > 2 else None
            no_own = third is not None and og.nf_str(third).endswith("None")
            for (pname, branch, e) in sigs:
                if no_own and branch is True:
                    continue  # dead branch: the caller passes None
                own_branch = branch is True
                passed = [c for c in g.checks if c[3] in (pname, pname + ".clone()")]
                if own_branch:
                    # checks of this variant = those emitted under "own restrictions present" or unconditionally
                    pass
                if pname.startswith("_") or not passed:
                    ck.violation("R5", f"{gname}:incoming-ignored", e.site,
                                 f"struct `{gname}`: the emitted impl"
                                 + (" (variant with facets of its own)" if own_branch else "")
                                 + f" never passes its incoming restriction set `{pname}` to a delegated check: facets arriving from a "
                                   f"containing/derived type are not enforced", fn=short)
                else:
                    ck.ok("R5", f"{gname}:incoming-forwarded" + (":own" if own_branch else ""), e.site,
                          f"struct `{gname}`: incoming `{pname}` is passed to {len(passed)} delegated check(s)", fn=short)
            if not sigs:
                ck.undecided("R5", f"{gname}:signature", g.header.site, f"struct `{gname}`: emitted check_restrictions signature not recognised", fn=short)
            known_names = {s_[0] for s_ in sigs} | {"restrictions"}
            bad_args = sorted({c[3] for c in g.checks if c[3].replace(".clone()", "") not in known_names})
            if bad_args:
                ck.violation("R5", f"{gname}:check-arg", g.open.site,
                             f"struct `{gname}`: emitted checks pass {bad_args}, which is neither the incoming parameter nor the type's own "
                             f"restriction set", fn=short)
    ck.floor("R3", "struct+impl template groups", n_groups, 3)
    facet_table(ck, F, X)


INT_TYPES = ("i8", "i16", "i32", "i64", "i128", "isize", "u8", "u16", "u32", "u64", "u128", "usize")


def _int_fits(src, dst):
    from engine.rulekit.skeleton import INT_RANGES
    if src not in INT_RANGES or dst not in INT_RANGES:
        return False
    return INT_RANGES[dst][0] <= INT_RANGES[src][0] and INT_RANGES[src][1] <= INT_RANGES[dst][1]


def facet_hole_types(F, X):
    """[(helper field, integer type of the helper field, integer type of the value written into it, emit)] for the facet constructor."""
    helper = {}
    for st in F.lib.items["structs"]:
        if st["path"] == "model::helpers_content::restrictions::Restrictions":
            for f in st["variants"][0]["fields"]:
                m = re.match(r"^std::option::Option<(\w+)>$", f["ty"])
                if m and m.group(1) in INT_TYPES:
                    helper[f["name"]] = m.group(1)
    out = []
    for ev in X.events.get(RESTR_WRITER, []):
        if ev.kind != "emit":
            continue
        m = re.match(r"^\s*(\w+): Some\(\{\}\)", ev.skeleton())
        if m and m.group(1) in helper and len(ev.holes()) == 1:
            ty = (ev.holes()[0][2] or "?").replace("&", "").strip()
            nt = og.numeric_text_type(ev.holes()[0][0], _ce(X))
            if nt is not None:
                ty = nt   # the decimal text of a parsed number of that type
            out.append((m.group(1), helper[m.group(1)], ty, ev))
    return out


def facet_table(ck, F, X):
    from rules.c07 import FACETS
    # (a) reader: build_restrictions fills model field f from XSD facet name
    from rules import anchors as A_
    builders = [f_["path"] for f_ in A_._fn_items(F) if A_._norm_ty(f_["output"]) == "model::structures::restrictions::Restrictions"
                and any("roxmltree::Node<" in A_._norm_ty(x) for x in f_["inputs"])]
    b = F.lib.body(builders[0]) if len(builders) == 1 else None     # the function that reads a <restriction> into the model
    read_tab = {}
    if b is None:
        ck.undecided("R4", "build_restrictions", "-", "function building the model Restrictions not found")
    else:
        # which XSD facet name fills which model field: an out-parameter call `f(node, &mut restrictions.F, "name")`, or an
        # assignment `restrictions.F = .. g(node, "name") ..` / `*target = ..` with target bound to `&mut restrictions.F` (loops
        # over literal tables of (field, name) pairs are unrolled by the walker)
        XSD_FACETS = {"minInclusive", "maxInclusive", "minExclusive", "maxExclusive", "totalDigits", "fractionDigits", "length",
                      "minLength", "maxLength", "whiteSpace", "pattern", "enumeration"}
        W = og.EnvWalker(F)

        def model_field(nf):
            while isinstance(nf, tuple) and nf[0] in ("payload",):
                nf = nf[2]
            if isinstance(nf, tuple) and nf[0] == "field" and isinstance(nf[1], tuple) and nf[1][0] in ("local", "param", "call", "unknown") \
                    and "estrictions" in og.nf_str(nf[1]):
                return nf[2]
            return None

        def lits_of(nf):
            return [r[1] for r in og.nf_roots(nf) if r[0] == "lit" and isinstance(r[1], str) and r[1] in XSD_FACETS]

        def cb(e, env, ctx):
            k = e.get("k")
            if k in ("Call", "MethodCall"):
                args = ([e["recv"]] if k == "MethodCall" else []) + list(e["args"])
                outs = []
                for a in args:
                    a2 = Hh.strip(a)
                    if a2.get("k") == "AddrOf" and a2.get("mut"):
                        f = model_field(W.NF.nf(a2, env))
                        if f:
                            outs.append(f)
                    elif str(a2.get("ty") or "").startswith("&mut ") and a2.get("k") == "Path":
                        # the out-parameter handed on as the `&mut` it already is (a row `("minInclusive", &mut self.min_inclusive)` of a table)
                        f = model_field(W.NF.nf(a2, env))
                        if f:
                            outs.append(f)
                if outs:
                    names = [l for a in args for l in lits_of(W.NF.nf(a, env))]
                    for f in outs:
                        for l in names:
                            read_tab.setdefault(f, []).append((l, Hh.sp(e)))
            if k == "Assign":
                f = model_field(W.NF.nf(e["a"], env))
                if f:
                    src = W.NF.nf(e["b"], env)
                    names = lits_of(src) + [l for c in ctx if c[0] == "alt" for l in lits_of(c[1])]
                    if f == "enumeration" and not names:
                        return
                    for l in dict.fromkeys(names):
                        read_tab.setdefault(f, []).append((l, Hh.sp(e)))
        try:
            W.walk_fn(b["path"], cb)
        except og.Unrecognised as u:
            ck.undecided("R4", "reader-row-shape", b["span"], f"facet extraction of unrecognised shape: {u.what}")
        # a struct literal `Restrictions { min_inclusive: facet("minInclusive"), .. }` (in the builder or in a helper of it)
        CEr = og.CallExpander(F)
        for (fn_, site_, ctx_, fields_, base_) in og.field_summaries(F, "structures::restrictions::Restrictions", through_helpers=False):
            if fn_ != b["path"]:
                continue
            for f_, v_ in fields_.items():
                names = lits_of(CEr.expand(v_))
                if f_ == "enumeration" and not names:
                    continue
                for l in dict.fromkeys(names):
                    if (l, site_) not in read_tab.get(f_, []):
                        read_tab.setdefault(f_, []).append((l, site_))
        nb = Hh.norm_body(b)
        # enumeration: collected from the children whose tag is "enumeration", attribute "value"
        lits = [y.get("v") for y in Hh.exprs(nb["value"]) if y.get("k") == "Lit" and y.get("lit") == "str"]
        if "enumeration" in lits and "value" in lits and not read_tab.get("enumeration"):
            for x in Hh.exprs(nb["value"]):
                if x.get("k") == "Assign":
                    lhs = Hh.strip(x["a"])
                    if lhs.get("k") == "Field" and lhs["name"] == "enumeration":
                        read_tab.setdefault("enumeration", []).append(("enumeration", Hh.sp(x)))
    # (b) writer: helper field <- model field
    write_tab = {}
    for ev in X.events.get(RESTR_WRITER, []):
        if ev.kind != "emit":
            continue
        m = re.match(r"^\s*(\w+): Some\((\{\}|vec!\[)", ev.skeleton())
        if m:
            hf = m.group(1)
            src = None
            if ev.holes():
                src = ev.holes()[0][0]
            else:
                # enumeration: `enumeration: Some(vec![` under `self.enumeration is Some`
                for c in ev.ctx:
                    if c[0] == "alt" and c[1][0] == "islet":
                        src = ("payload", "Some", c[1][2])
            write_tab.setdefault(hf, []).append((src, ev))
    helper_fields = None
    for st in F.lib.items["structs"]:
        if st["path"] == "model::helpers_content::restrictions::Restrictions":
            helper_fields = [f["name"] for f in st["variants"][0]["fields"]]
    if helper_fields is None:
        ck.undecided("R4", "helper-struct", "-", "helper Restrictions struct not found")
        helper_fields = []
    ck.count("R4:helper fields", len(helper_fields))
    for hf in helper_fields:
        want_xsd = FACETS.get(hf)
        if want_xsd is None:
            ck.undecided("R4", f"{hf}:unknown-facet", "-", f"helper Restrictions field `{hf}` has no known XSD facet name in the checker's table")
            continue
        rows = read_tab.get(hf, [])
        if len(rows) != 1 or rows[0][0] != want_xsd:
            ck.violation("R4", f"{hf}:reader", rows[0][1] if rows else "-",
                         f"model field `{hf}` is filled from {[r[0] for r in rows]} instead of the XSD facet `{want_xsd}`")
        else:
            ck.ok("R4", f"{hf}:reader", rows[0][1], f"`{want_xsd}` -> model `{hf}`")
        wrows = write_tab.get(hf, [])
        good = len(wrows) == 1 and wrows[0][0] is not None and _payload_of_self_field(wrows[0][0]) == hf
        if good:
            ev = wrows[0][1]
            guard_ok = any(c[0] == "alt" and c[2] is True and _mentions_self_field(c[1], hf) for c in ev.ctx)
            if guard_ok:
                ck.ok("R4", f"{hf}:writer", ev.site, f"model `{hf}` -> emitted `{hf}: Some(..)`")
                for (hf2, want, got, ev2) in facet_hole_types(F, X):
                    if hf2 == hf and not _int_fits(got, want):
                        ck.violation("R4", f"{hf}:writer-type", ev2.site,
                                     f"`{hf}` is emitted as a `{got}` literal into the helper field of type `Option<{want}>`: a facet value that fits "
                                     f"`{got}` but not `{want}` yields code that does not compile instead of a bound that is enforced")
            else:
                ck.violation("R4", f"{hf}:writer-guard", ev.site, f"`{hf}` is emitted under a condition that does not test model field `{hf}`")
        else:
            ck.violation("R4", f"{hf}:writer", wrows[0][1].site if wrows else "-",
                         f"helper field `{hf}` is emitted {len(wrows)} time(s) from "
                         f"{[og.nf_str(w[0]) if w[0] else None for w in wrows]} instead of exactly once from model field `{hf}`")
    # crossed rows: a model field read from the XSD name of another facet
    for f, rows in read_tab.items():
        for (xsd, site) in rows:
            if f in FACETS and FACETS[f] != xsd:
                pass  # already reported above
    # R4 (gate): the emission of a facet may only be conditioned on that facet itself (and on facet-independent structure). A
    # condition over *other* facets that does not mention this one silently drops the facet for some schemas.
    CE = og.CallExpander(F)
    facet_names = set(FACETS)
    try:
        stream = [e for e in inline(X, ROOT) if e.kind == "emit" and e.fn == RESTR_WRITER]
    except og.Unrecognised:
        stream = []
    gate_seen = set()
    for ev in stream:
        m = re.match(r"^\s*(\w+): Some\((\{\}|vec!\[)", ev.skeleton())
        if not m or m.group(1) not in facet_names:
            continue
        hf = m.group(1)
        for c in ev.ctx:
            if c[0] != "alt":
                continue
            cond = CE.expand(c[1])
            mentioned = _facet_fields(cond, facet_names)
            if mentioned and hf not in mentioned:
                if (hf, og.nf_str(cond)[:60]) in gate_seen:
                    continue
                gate_seen.add((hf, og.nf_str(cond)[:60]))
                ck.violation("R4", f"{hf}:gated-by-other-facets", ev.site,
                             f"the emission of `{hf}` is conditioned on {sorted(mentioned)} ({og.nf_str(cond)[:110]}…) but not on `{hf}` itself: a type whose "
                             f"only facet is `{FACETS[hf]}` gets no restriction constructor and is never checked")
        if hf not in {g[0] for g in gate_seen}:
            ck.ok("R4", f"{hf}:gate", ev.site, f"`{hf}` is emitted whenever the model has it (no condition over other facets)")
    # R6: numeric facet holes must be typed numerically
    for hf, rows in write_tab.items():
        if hf == "enumeration":
            continue
        for (src, ev) in rows:
            for (nf, tr, ty) in ev.holes():
                t = og.numeric_text_type(nf, _ce(X)) or ty.replace("&", "").strip()
                # the number is the facet's text read as a whole: a bound made from a part of the text (what stands in front of a `.`,
                # behind a sign ..) is a bound the schema does not state — and one for a type whose values the carrier cannot compare
                # (`minInclusive="0.00"` of a decimal type becomes an integer bound of a text carrier that reads integers only)
                cem = og.CallExpander(F, general_matches=True)
                exp_ = cem.expand(nf)
                parts_of = sorted({str(c_[1]).rsplit("::", 1)[-1] for c_ in og.nf_calls(exp_)} & PARTIAL_TEXT_STEPS)
                for c_ in og.nf_calls(exp_):
                    # a helper of the crate that stays a call (early returns, a `match` with guards): what its body does to the text
                    hb = F.lib.body(str(c_[1])) if isinstance(c_[1], str) else None
                    if hb is not None and hb.get("hir") is not None and not parts_of:
                        parts_of = sorted({x_["name"] for x_ in Hh.exprs(Hh.norm_body(hb)["value"]) if x_.get("k") == "MethodCall"} & PARTIAL_TEXT_STEPS)
                if parts_of:
                    ck.violation("R6", f"{hf}:partial-text", ev.site,
                                 f"`{hf}: Some({{..}})` is made from a part of the facet's text (`{parts_of[0]}`), not from the text read as one number: facets "
                                 f"written `0.00` / `100.0` on decimal types become integer bounds of a carrier that refuses every value with a fraction")
                if t in ("i8", "i16", "i32", "i64", "i128", "u8", "u16", "u32", "u64", "u128", "usize", "isize"):
                    ck.ok("R6", f"{hf}:typed", ev.site, f"`{hf}` literal is emitted from a value of type {t}")
                else:
                    ck.violation("R6", f"{hf}:untyped", ev.site,
                                 f"`{hf}: Some({{..}})` is filled with a value of type `{ty}` (raw schema text): a non-integer facet value "
                                 f"yields code that does not compile or is not a number")


PARTIAL_TEXT_STEPS = {"split_once", "rsplit_once", "split", "rsplit", "splitn", "rsplitn", "split_at", "find", "rfind", "bytes", "chars", "char_indices",
                      "replace", "replacen", "trim_matches", "trim_start_matches", "trim_end_matches", "strip_prefix", "strip_suffix", "get", "split_terminator",
                      "split_whitespace", "truncate", "drain"}


def _facet_fields(nf, names, out=None):
    out = set() if out is None else out
    if isinstance(nf, tuple):
        if nf and nf[0] == "field" and nf[2] in names:
            out.add(nf[2])
        for x in nf:
            if isinstance(x, tuple):
                _facet_fields(x, names, out)
    return out


def _payload_of_self_field(nf):
    """`Some⟨self.f⟩` (possibly through parse/trim calls whose first argument is that) -> f"""
    cur = nf
    for _ in range(8):
        if not isinstance(cur, tuple):
            return None
        if cur[0] == "payload" and cur[1] in ("Some", "Ok"):
            cur = cur[2]
            continue
        if cur[0] == "call" and cur[2]:
            cur = cur[2][0]
            continue
        if cur[0] == "map":
            cur = cur[1]
            continue
        if cur[0] == "field" and cur[1] == ("param", "self"):
            return cur[2]
        return None
    return None


def _mentions_self_field(nf, f):
    if not isinstance(nf, tuple):
        return False
    if nf[0] == "field" and nf[1] == ("param", "self") and nf[2] == f:
        return True
    return any(_mentions_self_field(x, f) for x in nf if isinstance(x, tuple)) or any(
        _mentions_self_field(y, f) for x in nf if isinstance(x, tuple) for y in x if isinstance(y, tuple))
