import re
"""C06 — a value passes the restriction check exactly when it satisfies the facets.

Decided on the MIR (`mir_built`) of every `impl CheckRestrictions` in the emitted helper module
(`model::helpers_content`, compiled into zeep-lib and emitted verbatim): all acyclic CFG paths of
each impl are enumerated; every branch condition must classify as one of a closed set of atoms
(restriction set present, facet present, ordering of value/length against a facet bound,
enumeration membership, result of a fallible conversion / delegated check).  Because the code
touches the value only through these atoms, the set of paths *is* the function's behaviour on all
inputs; each path's outcome is compared with the XSD oracle.  Anything unclassifiable is reported
(fail closed)."""
from engine.rulekit import inline as I
from engine.rulekit import mir as M
from engine.rulekit import pp
from engine.rulekit import scans

TRAIT = "model::helpers_content::restrictions::CheckRestrictions"
NUMERIC = ("min_inclusive", "max_inclusive", "min_exclusive", "max_exclusive")
LENGTH = ("length", "min_length", "max_length")
# orderings of (value ? bound) under which the facet is VIOLATED
VIOLATING = {
    "min_inclusive": {"lt"},
    "max_inclusive": {"gt"},
    "min_exclusive": {"lt", "eq"},
    "max_exclusive": {"gt", "eq"},
    "min_length": {"lt"},
    "max_length": {"gt"},
    "length": {"lt", "gt"},
}
ALL_ORD = {"lt", "eq", "gt"}
INT_CARRIERS = ("i8", "u8", "i16", "u16", "i32", "u32", "i64", "u64")
INT_RANGE = {
    "i8": (-2**7, 2**7 - 1), "u8": (0, 2**8 - 1), "i16": (-2**15, 2**15 - 1), "u16": (0, 2**16 - 1),
    "i32": (-2**31, 2**31 - 1), "u32": (0, 2**32 - 1), "i64": (-2**63, 2**63 - 1), "u64": (0, 2**64 - 1),
    "i128": (-2**127, 2**127 - 1), "u128": (0, 2**128 - 1), "isize": (-2**63, 2**63 - 1), "usize": (0, 2**64 - 1),
}


class Undecided(Exception):
    def __init__(self, what, bb=None):
        super().__init__(what)
        self.what = what
        self.bb = bb


class Role:
    def __init__(self, kind, **kw):
        self.kind = kind
        self.__dict__.update(kw)

    def __repr__(self):
        d = {k: v for k, v in self.__dict__.items() if k != "kind"}
        return f"{self.kind}{d if d else ''}"


def widening(from_ty, to_ty):
    a, b = INT_RANGE.get(from_ty), INT_RANGE.get(to_ty)
    if a is None or b is None:
        return None
    return b[0] <= a[0] and a[1] <= b[1]


class Analyzer:
    """Path enumeration of one function with role-classified atoms."""

    def __init__(self, F, fact_body, roles, depth=0):
        self.F = F
        # local helper functions and directly called closures are part of the function: analysed inlined (the delegated
        # check_restrictions calls stay calls: they are what the wrapper rules look for)
        self.B = M.Body(I.Inliner(F.lib, stop=lambda p: p.endswith("::check_restrictions")).body(fact_body)) if depth == 0 else M.Body(fact_body)
        self.roles = roles  # param local -> 'value' | 'restr_opt' | 'restr' | Role
        self.type_alias = {}   # generic parameter of a blanket impl -> the carrier it is analysed for
        self.depth = depth
        self.paths = []
        self._role_cache = {}

    # ---- roles ------------------------------------------------------------------------------
    def role_of_operand(self, op):
        if op.get("k") == "const":
            if "int" in op or "bits" in op:
                return Role("const", value=op.get("int", op.get("bits")))
            return Role("const", value=op.get("str", op.get("text")))
        return self.role_of_place(op["p"])

    def role_of_place(self, place):
        key = (place["l"], repr(place.get("proj")))
        if key in self._role_cache:
            return self._role_cache[key]
        origins = M.trace_place(self.B, place)
        rs = [self.role_of_origin(o) for o in origins]
        r = rs[0]
        for x in rs[1:]:
            if repr(x) != repr(r):
                r = Role("ambiguous", options=rs)
                break
        self._role_cache[key] = r
        return r

    def _flags_from_steps(self, steps):
        flags = set()
        for s in steps:
            if s[0] == "call" and s[1].endswith(("convert::From::from", "convert::Into::into")):
                g = (self.B.term(s[2]).get("func") or {}).get("gargs") or []
                if len(g) == 2:
                    src, dst = (g[1], g[0]) if s[1].endswith("From::from") else (g[0], g[1])
                    # inside a blanket impl the generic carrier stands for the type the body is being judged for
                    src, dst = self.type_alias.get(src, src), self.type_alias.get(dst, dst)
                    if src in INT_RANGE or dst in INT_RANGE:
                        w = widening(src, dst)
                        if w is False:
                            flags.add(f"narrowing-conversion:{src}->{dst}")
                        elif w is None and src != dst:
                            flags.add(f"unknown-cast:{src}->{dst}")
            if s[0] == "cast":
                _, ck, fty, tty = s
                if ck.startswith("IntToInt"):
                    w = widening(fty, tty)
                    if w is False:
                        flags.add(f"narrowing-cast:{fty}->{tty}")
                    elif w is None:
                        flags.add(f"unknown-cast:{fty}->{tty}")
                elif ck.startswith(("PointerCoercion", "Transmute")) is False and not ck.startswith("IntToInt"):
                    if ck.startswith(("IntToFloat", "FloatToInt", "FloatToFloat")):
                        flags.add(f"lossy-cast:{fty}->{tty}")
        return flags

    def role_of_origin(self, o):
        fields = [f for f in o.fields()]
        flags = self._flags_from_steps(o.steps)
        if o.kind == "const":
            c = o.const
            return Role("const", value=c.get("int", c.get("bits", c.get("str", c.get("text")))))
        if o.kind == "arg":
            base = self.roles.get(o.local)
            if base is None:
                return Role("other", why=f"parameter _{o.local}")
            return self.apply_fields(base, o.proj, flags)
        if o.kind == "upvar":
            return Role("upvar", name=o.name)
        if o.kind == "call":
            return self.role_of_call(o, flags)
        if o.kind == "op":
            rv = o.rv
            if rv["k"] == "binop" and rv["op"] in ("Lt", "Le", "Gt", "Ge", "Eq", "Ne"):
                return Role("cmp", op=rv["op"], a=self.role_of_operand(rv["a"]), b=self.role_of_operand(rv["b"]))
            if rv["k"] == "unop" and rv["op"] == "Not":
                return Role("not", x=self.role_of_operand(rv["a"]))
            if rv["k"] == "unop" and rv["op"] == "PtrMetadata":
                return Role("other", why="slice length (bytes)")
            return Role("other", why="rvalue " + pp.rvalue(rv))
        if o.kind == "discr":
            return Role("discr", of=self.role_of_place(o.place))
        if o.kind == "aggregate":
            rv = o.rv
            if rv.get("ak") == "adt" and rv.get("adt", "").endswith("Option") and rv.get("variant") == "None":
                return Role("none")
            if rv.get("ak") == "tuple" and not rv["ops"]:
                return Role("unit")
            if rv.get("ak") == "array" and not o.proj:
                return Role("array", items=[self.role_of_operand(x) for x in rv["ops"]], ops=list(rv["ops"]))
            return Role("other", why="aggregate " + pp.rvalue(rv))
        return Role("other", why=o.kind + " " + str(getattr(o, "why", "")))

    def apply_fields(self, base, proj, flags):
        """Apply a projection path to a base role."""
        if isinstance(base, str):
            base = Role(base)
        cur = base
        for p in proj:
            if p == "deref" or (isinstance(p, dict) and "downcast" in p):
                continue
            if not (isinstance(p, dict) and "f" in p):
                return Role("other", why=f"projection {p}")
            f = p["f"]
            k = cur.kind
            if k == "restr_opt" and p.get("v") == "Some":
                cur = Role("restr")
            elif k == "restr":
                cur = Role("facet_opt", facet=f)
            elif k == "facet_opt" and p.get("v") == "Some":
                cur = Role("bound", facet=cur.facet)
            elif k == "value_opt" and p.get("v") == "Some":
                cur = Role("inner_value")
            elif k == "controlflow" and p.get("v") == "Continue":
                cur = cur.of.ok if cur.of.kind == "result" else Role("other", why="continue of non-result")
            elif k == "controlflow" and p.get("v") == "Break":
                cur = Role("residual", of=cur.of)
            elif k == "result" and p.get("v") == "Ok":
                cur = cur.ok
            elif k == "next_opt" and p.get("v") == "Some":
                cur = Role("element", of=cur.of)
            elif k == "wrapped" and f == "inner":
                cur = Role("inner_value")
            else:
                return Role("other", why=f"field {f} of {cur!r}")
        if flags:
            cur = Role(cur.kind, **{**{k: v for k, v in cur.__dict__.items() if k != "kind"},
                                    "flags": set(getattr(cur, "flags", set())) | flags})
        return cur

    def role_of_call(self, o, flags):
        t = o.term
        decl = M.Body.callee_decl(t) or ""
        inst = M.Body.callee(t) or ""
        args = t["args"]
        r = None

        def a(i):
            return self.role_of_operand(args[i])

        if decl.endswith("Iterator::count"):
            src = a(0)
            if src.kind == "chars":
                r = Role("len", unit="chars")
            else:
                r = Role("other", why=f"count over {src!r}")
        elif decl.endswith("str>::chars"):
            src = a(0)
            r = Role("chars") if src.kind == "value" else Role("other", why=f"chars of {src!r}")
        elif decl.endswith(("str>::len", "String::len")):
            src = a(0)
            r = Role("len", unit="bytes") if src.kind == "value" else Role("other", why=f"len of {src!r}")
        elif decl.endswith("str>::parse"):
            src = a(0)
            ty = (t["func"].get("gargs") or ["?"])[0]
            if src.kind == "value":
                r = Role("result", ok=Role("value", flags={f"parsed:{ty}"}, parsed=ty), err="parse", bb=o.bb)
            else:
                r = Role("other", why=f"parse of {src!r}")
        elif decl.endswith("convert::TryFrom::try_from") or decl.endswith("convert::TryInto::try_into"):
            src = a(0)
            ret = self.B.local_ty(t["dest"]["l"]) if not t["dest"].get("proj") else ""
            infallible = "std::convert::Infallible" in ret
            if src.kind in ("value", "inner_value", "bound"):
                kw = {k: v for k, v in src.__dict__.items() if k != "kind"}
                fl = set(kw.pop("flags", set()))
                if not infallible:
                    fl.add("fallible-conversion:" + ret)
                r = Role("result", ok=Role(src.kind, flags=fl, **kw), err="conversion", infallible=infallible, bb=o.bb)
            else:
                r = Role("other", why=f"try_from of {src!r}")
        elif decl.endswith(("Result::<T, E>::map_err",)):
            r = a(0)
        elif decl.endswith("ops::Try::branch"):
            r = Role("controlflow", of=a(0))
        elif decl.endswith(("[T]>::contains", "Vec::<T, A>::contains")):
            hay, needle = a(0), a(1)
            if hay.kind == "bound" and hay.facet == "enumeration" and needle.kind == "value":
                r = Role("member")
            else:
                r = Role("other", why=f"contains({hay!r}, {needle!r})")
        elif decl.endswith("Iterator::any"):
            src = a(0)
            if src.kind == "iter" and src.of.kind == "bound" and src.of.facet == "enumeration" and not src.adapters:
                r = Role("member", via="any", closure=args[1])
            else:
                r = Role("other", why=f"any over {src!r}")
        elif decl.endswith(("Iterator::all", "Iterator::any")) and a(0).kind == "iter" and a(0).of.kind == "array" and not a(0).adapters:
            # [facet, facet, ..].iter().all(Option::is_none): the conjunction of the tests; any(Option::is_some) its negation
            src = a(0)
            test = self._option_test(args[1])
            facets = [getattr(x, "facet", None) if x.kind == "facet_opt" else None for x in src.of.items]
            want = "is_none" if decl.endswith("all") else "is_some"
            if test == want and facets and all(facets):
                r = Role("all_absent", facets=facets)
                if want == "is_some":
                    r = Role("not", x=r)
            else:
                r = Role("other", why=f"{decl.rsplit('::', 1)[-1]} over {src!r} with {test or 'a function that is not Option::is_none / is_some'}")
        elif decl.endswith("Iterator::find") and a(0).kind == "iter" and a(0).of.kind == "array" and not a(0).adapters and self._second_field_test(args[1]):
            # a table of (facet name, "is violated") pairs searched for the first pair whose flag is set
            items = []
            for it_ in a(0).of.ops:
                os_ = [o_ for o_ in M.trace(self.B, it_, ()) if o_.kind == "aggregate" and o_.rv.get("ak") == "tuple" and len(o_.rv["ops"]) == 2]
                if len(os_) != 1:
                    items = None
                    break
                items.append(os_[0].rv["ops"][1])
            r = Role("first_true", items=items) if items else Role("other", why="find over a table whose rows are not (name, flag) pairs")
        elif decl.endswith("Iterator::all"):
            # all(|e| e != v)  ==  !any(|e| e == v)
            src = a(0)
            if src.kind == "iter" and src.of.kind == "bound" and src.of.facet == "enumeration" and not src.adapters:
                r = Role("not", x=Role("member", via="any", closure=args[1], negated=True))
            else:
                r = Role("other", why=f"all over {src!r}")
        elif decl.endswith(("[T]>::iter", "IntoIterator::into_iter")):
            src = a(0)
            if src.kind == "iter":
                r = src
            else:
                r = Role("iter", of=src, adapters=[])
        elif decl.endswith("Iterator::next"):
            src = a(0)
            r = Role("next_opt", of=src) if src.kind == "iter" else Role("other", why=f"next of {src!r}")
        elif decl.endswith("Option::<T>::map") and len(args) == 2:
            # `bound.map(i128::from)` / `.map(|b| i128::from(b))`: still the facet, widened; anything else done to it is not understood
            src = a(0)
            conv = self._pure_widening(args[1])
            if src.kind == "facet_opt" and conv:
                r = Role("facet_opt", facet=src.facet, flags=set(getattr(src, "flags", set())))
            else:
                r = Role("other", why=f"call {decl} on {src!r}" + ("" if conv else " with a function that is not a plain conversion"))
        elif decl.endswith("Option::<T>::is_none"):
            src = a(0)
            r = Role("absent", facet=src.facet) if src.kind == "facet_opt" else (
                Role("restr_absent") if src.kind == "restr_opt" else Role("other", why=f"is_none of {src!r}"))
        elif decl.endswith("Option::<T>::is_some"):
            src = a(0)
            r = Role("present", facet=src.facet) if src.kind == "facet_opt" else (
                Role("restr_present") if src.kind == "restr_opt" else Role("other", why=f"is_some of {src!r}"))
        elif decl.endswith("CheckRestrictions::check_restrictions"):
            r = Role("result", ok=Role("unit"), err="delegated", callee=inst, decl=decl,
                     args=[a(i) for i in range(len(args))], bb=o.bb)
        elif decl.endswith(("cmp::PartialOrd::lt", "cmp::PartialOrd::le", "cmp::PartialOrd::gt", "cmp::PartialOrd::ge",
                            "cmp::PartialEq::eq", "cmp::PartialEq::ne")):
            opn = {"lt": "Lt", "le": "Le", "gt": "Gt", "ge": "Ge", "eq": "Eq", "ne": "Ne"}[decl.rsplit("::", 1)[1]]
            r = Role("cmp", op=opn, a=a(0), b=a(1))
        else:
            # call into a local helper function: summarised by recursive analysis at outcome time
            fb = self.F.lib.body(inst) or self.F.lib.body(decl)
            if fb is not None and fb.get("mir") and "helpers_content" in (inst or decl):
                r = Role("result", ok=Role("unit"), err="helper", callee=inst or decl, decl=decl,
                         args=[a(i) for i in range(len(args))], bb=o.bb, local_fn=True)
            else:
                r = Role("other", why=f"call {decl}")
        return self.apply_fields(r, o.proj, flags)

    def _second_field_test(self, operand):
        """the closure handed to `find` is `|(_, flag)| *flag`: it returns field 1 of the element and does nothing else"""
        for o in M.trace(self.B, operand, ()):
            if not (o.kind == "aggregate" and o.rv.get("closure")):
                return False
            cb = self.F.lib.body(o.rv["closure"])
            if cb is None or not cb.get("mir"):
                return False
            CB = M.Body(cb)
            if CB.calls() or any(st_["k"] == "assign" and st_["rv"]["k"] in ("binop", "unop", "cast") for i_ in sorted(CB.reach) for st_ in CB.blocks[i_]["stmts"]):
                return False
            rets = [st_ for i_ in sorted(CB.reach) for st_ in CB.blocks[i_]["stmts"] if st_["k"] == "assign" and st_["p"]["l"] == 0 and not st_["p"].get("proj")]
            for st_ in rets:
                if st_["rv"]["k"] != "use":
                    return False
                os_ = M.trace(CB, st_["rv"]["op"], ())
                if not (os_ and all(x.kind == "arg" and x.local == 2 and [f_ for f_ in x.fields()] == ["1"] for x in os_)):
                    return False
            if not rets:
                return False
        return True

    def _option_test(self, operand):
        """'is_none' / 'is_some' when the function handed over is `Option::is_none` / `Option::is_some` or a closure that only calls it on
        its argument"""
        for o in M.trace(self.B, operand, ()):
            if o.kind == "const":
                p = o.const.get("fn_path") or ""
                for n in ("is_none", "is_some"):
                    if p.endswith("Option::<T>::" + n):
                        return n
                return None
            if o.kind == "aggregate" and o.rv.get("closure"):
                cb = self.F.lib.body(o.rv["closure"])
                if cb is None or not cb.get("mir"):
                    return None
                CB = M.Body(cb)
                calls = [M.Body.callee_decl(t) or "" for _, t in CB.calls()]
                ops = [st for i in sorted(CB.reach) for st in CB.blocks[i]["stmts"] if st["k"] == "assign" and st["rv"]["k"] in ("binop", "unop", "cast", "discr")]
                if len(calls) == 1 and not ops:
                    for n in ("is_none", "is_some"):
                        if calls[0].endswith("Option::<T>::" + n):
                            return n
            return None
        return None

    def _pure_widening(self, operand):
        """the function handed to `map` is `From::from` / `Into::into` between integer types that widen, or a closure doing only that"""
        for o in M.trace(self.B, operand, ()):
            if o.kind == "const":
                p = o.const.get("fn_path") or ""
                g = o.const.get("gargs") or []
                if p.endswith(("convert::From::from", "convert::Into::into")) and len(g) == 2:
                    src, dst = (g[1], g[0]) if p.endswith("From::from") else (g[0], g[1])
                    if widening(src, dst) is True or src == dst:
                        continue
                return False
            if o.kind == "aggregate" and o.rv.get("closure"):
                cb = self.F.lib.body(o.rv["closure"])
                if cb is None or not cb.get("mir"):
                    return False
                CB = M.Body(cb)
                for _, t in CB.calls():
                    d = M.Body.callee_decl(t) or ""
                    g = (t.get("func") or {}).get("gargs") or []
                    if d.endswith(("convert::From::from", "convert::Into::into")) and len(g) == 2:
                        src, dst = (g[1], g[0]) if d.endswith("From::from") else (g[0], g[1])
                        if widening(src, dst) is True or src == dst:
                            continue
                    return False
                # no arithmetic on the way
                for i in sorted(CB.reach):
                    for st in CB.blocks[i]["stmts"]:
                        if st["k"] == "assign" and st["rv"]["k"] in ("binop", "unop", "cast"):
                            return False
                continue
            return False
        return True

    # ---- path enumeration -------------------------------------------------------------------
    def explore(self):
        init = {"R": None, "P": {}, "ord": {}, "member": None, "events": [], "fallible": {}, "self_some": None, "vals": {}}
        self._walk(0, init, [], {}, None)
        # a tail call into a local helper (`return helper(value, &restrictions)`): splice the helper's paths in
        out = []
        for p in self.paths:
            o = p["outcome"]
            if o[0] == "Call":
                fb = self.F.lib.body(o[2]) or self.F.lib.body(o[4])
                if fb is not None and fb.get("mir") and "helpers_content" in (o[2] or "") and self.depth < 3:
                    roles = {i + 1: a for i, a in enumerate(o[3])}
                    sub = Analyzer(self.F, fb, roles, self.depth + 1)
                    for sp_ in sub.explore():
                        m = self._merge(p["st"], sp_["st"])
                        if m is None:
                            continue
                        if sp_["st"].get("helper_err"):
                            m["helper_err"] = sp_["st"]["helper_err"]
                        out.append({"outcome": sp_["outcome"], "st": m, "trail": p["trail"], "sub": sub})
                    continue
            out.append(p)
        self.paths = out
        return self.paths

    def _fork(self, st):
        return {"R": st["R"], "P": dict(st["P"]), "ord": {k: set(v) for k, v in st["ord"].items()},
                "member": st["member"], "events": list(st["events"]), "fallible": dict(st["fallible"]),
                "self_some": st["self_some"], "helper_err": st.get("helper_err"), "vals": dict(st.get("vals", {}))}

    def _walk(self, bb, st, trail, visits, ret_assign):
        visits = dict(visits)
        visits[bb] = visits.get(bb, 0) + 1
        if visits[bb] > 2:
            self.paths.append({"outcome": ("cut", bb), "st": st, "trail": trail})
            return
        if len(self.paths) > 20000:
            raise Undecided("path explosion")
        trail = trail + [bb]
        blk = self.B.blocks[bb]
        if blk["stmts"]:
            st = self._fork(st)
        for s in blk["stmts"]:
            if s["k"] == "assign" and not s["p"].get("proj"):
                self._track(st["vals"], s["p"]["l"], s["rv"], bb)
            if s["k"] == "assign" and s["p"]["l"] == 0 and not s["p"].get("proj"):
                ret_assign = ("stmt", bb, s["rv"], st["vals"].get(0))
        t = blk.get("term") or {}
        k = t.get("k")
        if k == "call":
            dcl = M.Body.callee_decl(t) or ""
            a0 = t["args"][0] if t.get("args") else None
            a0v = st["vals"].get(a0["p"]["l"]) if a0 and a0.get("k") in ("copy", "move") and not a0["p"].get("proj") else None
            if not t["dest"].get("proj") and (t["dest"]["l"] in st["vals"] or a0v is not None):
                st = self._fork(st)
                st["vals"].pop(t["dest"]["l"], None)
                if dcl.endswith("ops::Try::branch") and isinstance(a0v, tuple) and a0v[0] in ("result", "residual"):
                    st["vals"][t["dest"]["l"]] = a0v     # ControlFlow::Continue for Ok, Break for Err: same discriminants
            if dcl.endswith("FromResidual::from_residual") and not t["dest"].get("proj") and t["dest"]["l"] != 0:
                # `?` inside an inlined callee: the callee's result on this path is this residual (handed to the caller's return place later)
                st = self._fork(st)
                if isinstance(a0v, tuple) and a0v[0] == "errpayload":
                    st["vals"][t["dest"]["l"]] = ("result", "Err", a0v[1])     # the Err built by hand further in, handed one level up
                elif isinstance(a0v, tuple) and a0v[0] == "residual":
                    st["vals"][t["dest"]["l"]] = a0v                           # the same propagated error, one level up
                else:
                    st["vals"][t["dest"]["l"]] = ("residual", bb, a0v)
            elif not t["dest"].get("proj") and dcl.endswith("CheckRestrictions::check_restrictions"):
                # the result of a delegated check: followed through the copies that hand it to the return place
                st = self._fork(st)
                st["vals"][t["dest"]["l"]] = ("calldef", bb)
            elif not t["dest"].get("proj") and t["dest"]["l"] not in st["vals"] and len(self.B.defs().get(t["dest"]["l"], [])) > 1:
                # a local with several definitions: on this path it holds the result of this call
                st = self._fork(st)
                st["vals"][t["dest"]["l"]] = ("calldef", bb)
            if t["dest"]["l"] == 0 and not t["dest"].get("proj"):
                ret_assign = ("call", bb, t, a0v)
            decl = M.Body.callee_decl(t) or ""
            if decl.endswith("CheckRestrictions::check_restrictions"):
                st = self._fork(st)
                st["events"].append(("delegated", bb))
            if "target" not in t:
                self.paths.append({"outcome": ("diverges", bb, decl), "st": st, "trail": trail})
                return
            return self._walk(t["target"], st, trail, visits, ret_assign)
        if k in ("goto", "drop", "false_edge", "false_unwind"):
            return self._walk(t["target"], st, trail, visits, ret_assign)
        if k == "assert":
            self.paths.append({"outcome": ("panic", bb, t.get("msg")), "st": st, "trail": trail})
            return self._walk(t["target"], st, trail, visits, ret_assign)
        if k == "return":
            self.paths.append({"outcome": self._outcome(ret_assign), "st": st, "trail": trail})
            return
        if k == "unreachable":
            return
        if k == "switch" and t.get("resolved"):
            # the value switched on was fixed earlier on this path (jump threading kept the one arm that can be taken)
            live_ = [b for _v, b in t["targets"]] + [t["otherwise"]]
            live_ = [b for b in live_ if self.B.term(b).get("k") != "unreachable"]
            if len(live_) == 1:
                return self._walk(live_[0], st, trail, visits, ret_assign)
        if k == "switch":
            arms = [(v, b) for v, b in t["targets"]] + [("otherwise", t["otherwise"])]
            d = t["discr"]
            known = st["vals"].get(d["p"]["l"]) if d.get("k") in ("copy", "move") and not d["p"].get("proj") else None
            hops = 0
            while isinstance(known, tuple) and known[0] == "alias" and hops < 8:
                d = {"k": "copy", "p": {"l": known[1]}}
                known = st["vals"].get(known[1])
                hops += 1
            if isinstance(known, tuple) and known[0] == "int":
                # the value switched on was fixed on this very path (a boolean built by `matches!`, `||`, a Result built by hand)
                taken = [b for v, b in t["targets"] if v == known[1]] or [t["otherwise"]]
                return self._walk(taken[0], st, trail, visits, ret_assign)
            if isinstance(known, tuple) and known[0] == "calldef":
                role = self.role_of_origin(M.Origin("call", term=self.B.term(known[1]), bb=known[1], proj=[], steps=[]))
            elif isinstance(known, tuple) and known[0] == "def":
                role = self.role_of_origin(M.Origin("op", rv=known[2], bb=known[1], proj=[], steps=[]))   # the comparison made on this path
            else:
                role = self.role_of_operand(d)
            for val, tgt in arms:
                if self.B.term(tgt).get("k") == "unreachable":
                    continue
                st2 = self._fork(st)
                ok = self._constrain(st2, role, val, [v for v, _ in t["targets"]], bb)
                if ok is True:
                    self._walk(tgt, st2, trail, visits, ret_assign)
                elif ok:
                    for st3 in ok:
                        self._walk(tgt, st3, trail, visits, ret_assign)
            return
        raise Undecided(f"terminator {k}", bb)

    def _track(self, vals, l, rv, bb):
        """values fixed on the current path: boolean / integer constants, hand-built Ok / Err, discriminants of those, copies"""
        k = rv["k"]
        if k == "use" and rv["op"].get("k") == "const":
            c = rv["op"]
            v = c.get("int", c.get("bits"))
            if v is None and str(c.get("text")).strip() in ("true", "const true"):
                v = 1
            if v is None and str(c.get("text")).strip() in ("false", "const false"):
                v = 0
            if isinstance(v, int):
                vals[l] = ("int", v)
                return
        if k == "unop" and rv.get("op") == "Not" and rv.get("a", {}).get("k") in ("copy", "move") and not rv["a"]["p"].get("proj") \
                and isinstance(vals.get(rv["a"]["p"]["l"]), tuple) and vals[rv["a"]["p"]["l"]][0] == "int":
            vals[l] = ("int", 0 if vals[rv["a"]["p"]["l"]][1] else 1)
            return
        if (k == "binop" and rv.get("op") in ("Lt", "Le", "Gt", "Ge", "Eq", "Ne")) or (k == "unop" and rv.get("op") == "Not"):
            vals[l] = ("def", bb, rv)     # on this path the local holds this comparison / negation
            return
        if k == "aggregate" and rv.get("ak") in ("tuple", "closure"):
            # a tuple (or a closure's captures) built on this path: its components keep what is known about them
            vals[l] = ("tuple", tuple(self._op_fact(vals, o_) for o_ in rv["ops"]))
            return
        if k == "ref" and not rv["p"].get("proj"):
            vals[l] = ("ref", rv["p"]["l"])
            return
        if k == "ref":
            got = self._project_fact(vals, rv["p"])
            if got is not None:
                vals[l] = ("refto", got)     # a reference to a component of something built on this path
                return
        if k == "use" and rv["op"].get("k") in ("copy", "move") and rv["op"]["p"].get("proj"):
            got = self._project_fact(vals, rv["op"]["p"])
            if got is not None:
                vals[l] = got
                return
        if k == "use" and rv["op"].get("k") in ("copy", "move") and not rv["op"]["p"].get("proj") and rv["op"]["p"]["l"] in vals:
            vals[l] = vals[rv["op"]["p"]["l"]]
            return
        if k == "use" and rv["op"].get("k") in ("copy", "move") and not rv["op"]["p"].get("proj"):
            vals[l] = ("alias", rv["op"]["p"]["l"])   # on this path the local is a copy of that one (which has its own definition)
            return
        if k == "use" and rv["op"].get("k") in ("copy", "move") and rv["op"]["p"].get("proj"):
            src = vals.get(rv["op"]["p"]["l"])
            if isinstance(src, tuple) and src[0] == "result" and src[1] == "Err":
                vals[l] = ("errpayload", src[2])   # the error of a Result built by hand on this path, taken out by `?`
                return
            if isinstance(src, tuple) and src[0] == "residual":
                vals[l] = src                      # the error propagated by a `?` further in, taken out by the next `?`
                return
        if k == "aggregate" and rv.get("adt", "").endswith("result::Result"):
            vals[l] = ("result", rv["variant"], bb)
            return
        if k == "discr" and not rv["p"].get("proj") and isinstance(vals.get(rv["p"]["l"]), tuple) and vals[rv["p"]["l"]][0] == "result":
            vals[l] = ("int", 0 if vals[rv["p"]["l"]][1] == "Ok" else 1)
            return
        if k == "discr" and not rv["p"].get("proj") and isinstance(vals.get(rv["p"]["l"]), tuple) and vals[rv["p"]["l"]][0] == "residual":
            vals[l] = ("int", 1)
            return
        if k == "unop" and rv.get("op") == "Not" and rv.get("a", {}).get("k") in ("copy", "move") and not rv["a"]["p"].get("proj") \
                and isinstance(vals.get(rv["a"]["p"]["l"]), tuple) and vals[rv["a"]["p"]["l"]][0] == "int":
            vals[l] = ("int", 0 if vals[rv["a"]["p"]["l"]][1] else 1)
            return
        vals.pop(l, None)

    @staticmethod
    def _op_fact(vals, op):
        if op.get("k") == "const":
            v = op.get("int", op.get("bits"))
            if v is None and str(op.get("text")).strip() in ("true", "const true", "false", "const false"):
                v = 1 if "true" in str(op.get("text")) else 0
            return ("int", v) if isinstance(v, int) else ("opaque",)
        if op.get("k") in ("copy", "move") and not op["p"].get("proj"):
            return vals.get(op["p"]["l"]) or ("alias", op["p"]["l"])
        return ("opaque",)

    @staticmethod
    def _project_fact(vals, place):
        """what is known on this path about `place` = a projection through references and tuples that were built on this path"""
        cur = ("alias", place["l"])
        for pr in (place.get("proj") or []):
            hops = 0
            while isinstance(cur, tuple) and cur[0] == "alias" and hops < 8:
                nxt = vals.get(cur[1])
                if nxt is None:
                    return None
                cur = nxt
                hops += 1
            if pr == "deref":
                if isinstance(cur, tuple) and cur[0] == "ref":
                    cur = ("alias", cur[1])
                    continue
                if isinstance(cur, tuple) and cur[0] == "refto":
                    cur = cur[1]
                    continue
                return None
            if isinstance(pr, dict) and "f" in pr and "downcast" not in pr and pr.get("v") is None:
                if isinstance(cur, tuple) and cur[0] == "tuple" and isinstance(pr.get("i"), int) and pr["i"] < len(cur[1]):
                    cur = cur[1][pr["i"]]
                    continue
            return None
        if isinstance(cur, tuple) and cur[0] in ("int", "def", "calldef", "alias", "tuple", "ref", "refto"):
            return cur
        return None

    def _truth(self, val, values):
        """Truth value selected by a switch arm on a bool (0=false)."""
        if val == "otherwise":
            if values == [0]:
                return True
            if values == [1]:
                return False
            return None
        return bool(val)

    def _constrain(self, st, role, val, values, bb):
        k = role.kind
        if k == "discr":
            of = role.of
            # Option-like: variant 1 = Some, 0 = None ; ControlFlow: 0=Continue 1=Break ; Result: 0=Ok 1=Err
            if val == "otherwise":
                rest = {0, 1} - set(values)
                if len(rest) != 1:
                    raise Undecided(f"switch on discriminant of {of!r} with arms {values}", bb)
                variant = rest.pop()
            else:
                variant = val
            if of.kind == "restr_opt":
                return self._set(st, "R", variant == 1)
            if of.kind == "facet_opt":
                return self._setP(st, of.facet, variant == 1)
            if of.kind == "value_opt":
                return self._set(st, "self_some", variant == 1)
            if of.kind == "next_opt":
                st["events"].append(("next", variant == 1, bb))
                return True
            if of.kind == "controlflow":
                return self._result_branch(st, of.of, ok=(variant == 0), bb=bb)
            if of.kind == "result":
                return self._result_branch(st, of, ok=(variant == 0), bb=bb)
            if of.kind == "first_true":
                # `[(name, test), ..].iter().find(|(_, t)| *t)`: Some = the first test that holds (those before it do not), None = none holds
                roles = [self._role_on_path(st, op) for op in of.items]
                states = [st]
                if variant == 0:
                    for r in roles:
                        states = self._apply_all(states, r, False, bb)
                    return states or False
                out = []
                for i, r in enumerate(roles):
                    cur = [self._fork(st)]
                    for q in roles[:i]:
                        cur = self._apply_all(cur, q, False, bb)
                    out += self._apply_all(cur, r, True, bb)
                return out or False
            raise Undecided(f"branch on discriminant of {of!r}", bb)
        truth = self._truth(val, values)
        if truth is None:
            raise Undecided(f"non-boolean switch on {role!r}", bb)
        return self._constrain_bool(st, role, truth, bb)

    def _apply_all(self, states, role, truth, bb):
        """constrain every state with `role == truth`; states in which that cannot hold drop out"""
        out = []
        for s_ in states:
            s2 = self._fork(s_)
            r = self._constrain_bool(s2, role, truth, bb)
            if r is True:
                out.append(s2)
            elif r:
                out += list(r)
        return out

    def _role_on_path(self, st, op):
        """role of an operand with the definitions made on the current path taken into account: a boolean that is `false` on the
        path where a facet is absent and a comparison on the path where it is present is, here, the one or the other"""
        if op.get("k") in ("copy", "move") and not op["p"].get("proj"):
            l = op["p"]["l"]
            v = st["vals"].get(l)
            hops = 0
            while isinstance(v, tuple) and v[0] == "alias" and hops < 8:
                l = v[1]
                v = st["vals"].get(l)
                hops += 1
            if isinstance(v, tuple) and v[0] == "int":
                return Role("const", value=v[1])
            if isinstance(v, tuple) and v[0] == "def":
                return self.role_of_origin(M.Origin("op", rv=v[2], bb=v[1], proj=[], steps=[]))
            if isinstance(v, tuple) and v[0] == "calldef":
                return self.role_of_origin(M.Origin("call", term=self.B.term(v[1]), bb=v[1], proj=[], steps=[]))
            return self.role_of_operand({"k": "copy", "p": {"l": l}})
        return self.role_of_operand(op)

    def _constrain_bool(self, st, role, truth, bb):
        k = role.kind
        if k == "const":
            return bool(role.value) == bool(truth)
        if k == "not":
            return self._constrain_bool(st, role.x, not truth, bb)
        if k == "absent":
            return self._setP(st, role.facet, not truth)
        if k == "present":
            return self._setP(st, role.facet, truth)
        if k == "all_absent":
            if truth:
                return all(self._setP(st, f, False) for f in role.facets)
            outs = []    # the first facet that is present, as the short-circuit chain of tests would find it
            for i, f in enumerate(role.facets):
                s2 = self._fork(st)
                if all(self._setP(s2, g, False) for g in role.facets[:i]) and self._setP(s2, f, True):
                    outs.append(s2)
            return outs or False
        if k == "restr_absent":
            return self._set(st, "R", not truth)
        if k == "restr_present":
            return self._set(st, "R", truth)
        if k == "member":
            if getattr(role, "via", None) == "any":
                st["events"].append(("member-via-any", role.closure, bb, getattr(role, "negated", False)))
            return self._set(st, "member", truth)
        if k == "cmp":
            return self._constrain_cmp(st, role, truth, bb)
        raise Undecided(f"branch on {role!r}", bb)

    def _set(self, st, key, v):
        if st[key] is not None and st[key] != v:
            return False
        st[key] = v
        return True

    def _setP(self, st, facet, v):
        if facet in st["P"] and st["P"][facet] != v:
            return False
        st["P"][facet] = v
        if v:
            st["R"] = True if st["R"] is None else st["R"]
        return True

    def _result_branch(self, st, res, ok, bb):
        if res.kind != "result":
            raise Undecided(f"?/match on {res!r}", bb)
        key = (res.err, getattr(res, "bb", None))
        if key in st["fallible"] and st["fallible"][key][0] != ok:
            return False
        if res.err == "conversion" and getattr(res, "infallible", False) and not ok:
            return False  # Result<_, Infallible>: the Err arm is dead
        st["fallible"][key] = (ok, res)
        st["events"].append(("result", res.err, ok, bb, res))
        if res.err == "helper":
            return self._inline_helper(st, res, ok, bb)
        return True

    def _inline_helper(self, st, res, ok, bb):
        """A local helper returning a Result is consumed by `?`: splice the helper's own paths in."""
        if self.depth >= 3:
            raise Undecided(f"helper nesting too deep at {res.callee}", bb)
        fb = self.F.lib.body(res.callee) or self.F.lib.body(res.decl)
        roles = {}
        for i, a in enumerate(res.args):
            roles[i + 1] = a
        sub = Analyzer(self.F, fb, roles, self.depth + 1)
        out = []
        for p in sub.explore():
            k = p["outcome"][0]
            if k == "cut":
                raise Undecided(f"loop in helper {res.callee}", bb)
            is_ok = k == "Ok"
            if k not in ("Ok", "Err", "Residual"):
                raise Undecided(f"helper {res.callee} path outcome {k}", bb)
            if is_ok != ok:
                continue
            m = self._merge(st, p["st"])
            if m is None:
                continue
            if not ok:
                m["helper_err"] = (res.callee, p["outcome"], sub)
            out.append(m)
        return out

    def _merge(self, a, b):
        m = self._fork(a)
        for key in ("R", "member", "self_some"):
            if b[key] is not None:
                if m[key] is not None and m[key] != b[key]:
                    return None
                m[key] = b[key]
        for f, v in b["P"].items():
            if f in m["P"] and m["P"][f] != v:
                return None
            m["P"][f] = v
        for f, o in b["ord"].items():
            cur = m["ord"].get(f, set(ALL_ORD)) & o
            if not cur:
                return None
            m["ord"][f] = cur
        m["events"] += b["events"]
        m["fallible"].update(b["fallible"])
        return m

    def _constrain_cmp(self, st, role, truth, bb):
        a, b, op = role.a, role.b, role.op
        flip = {"Lt": "Gt", "Le": "Ge", "Gt": "Lt", "Ge": "Le", "Eq": "Eq", "Ne": "Ne"}
        lhs_kinds = ("value", "len", "inner_value")
        if a.kind == "bound" and b.kind in lhs_kinds:
            a, b, op = b, a, flip[op]
        if not (a.kind in lhs_kinds and b.kind == "bound"):
            raise Undecided(f"comparison {role!r} is not value-vs-bound", bb)
        facet = b.facet
        if facet in NUMERIC and a.kind not in ("value", "inner_value"):
            raise Undecided(f"numeric facet {facet} compared with {a!r}", bb)
        if facet in LENGTH:
            if a.kind != "len":
                raise Undecided(f"length facet {facet} compared with {a!r}", bb)
            st["events"].append(("len-unit", a.unit, facet, bb))
        for side in (a, b):
            for fl in getattr(side, "flags", ()) or ():
                st["events"].append(("flag", fl, facet, bb))
        sat = {"Lt": {"lt"}, "Le": {"lt", "eq"}, "Gt": {"gt"}, "Ge": {"gt", "eq"}, "Eq": {"eq"}, "Ne": {"lt", "gt"}}[op]
        allowed = sat if truth else (ALL_ORD - sat)
        cur = st["ord"].get(facet, set(ALL_ORD))
        new = cur & allowed
        if not new:
            return False
        st["ord"][facet] = new
        st["events"].append(("cmp", facet, op, truth, bb))
        # comparing against a bound implies the facet is present on this path
        if st["P"].get(facet) is False:
            return False
        st["P"][facet] = True
        return True

    def _outcome(self, ret_assign):
        if ret_assign is None:
            return ("unknown", None)
        kind, bb, x = ret_assign[:3]
        if kind == "stmt":
            rv = x
            if rv["k"] == "aggregate" and rv.get("adt", "").endswith("result::Result"):
                return ("Ok", bb) if rv["variant"] == "Ok" else ("Err", bb)
            tracked = ret_assign[3] if len(ret_assign) > 3 else None
            if isinstance(tracked, tuple) and tracked[0] == "calldef":
                ct = self.B.term(tracked[1])
                cdecl = M.Body.callee_decl(ct) or ""
                if cdecl.endswith("CheckRestrictions::check_restrictions"):
                    # `_0 = <the delegated check's result>` through moves (a closure's return handed on by a combinator)
                    return ("Delegate", tracked[1], M.Body.callee(ct), [self.role_of_operand(a) for a in ct["args"]], cdecl)
            if isinstance(tracked, tuple) and tracked[0] == "result":
                return ("Ok", tracked[2]) if tracked[1] == "Ok" else ("Err", tracked[2])
            if isinstance(tracked, tuple) and tracked[0] == "residual":
                if isinstance(tracked[2], tuple) and tracked[2][0] == "errpayload":
                    return ("Err", tracked[2][1])
                return ("Residual", tracked[1], self.role_of_operand(self.B.term(tracked[1])["args"][0]))
            if rv["k"] == "use":
                r = self.role_of_operand(rv["op"])
                return ("value", bb, r)
            return ("unknown", bb)
        t = x
        decl = M.Body.callee_decl(t) or ""
        if decl.endswith("FromResidual::from_residual"):
            tracked = ret_assign[3] if len(ret_assign) > 3 else None
            if isinstance(tracked, tuple) and tracked[0] == "errpayload":
                return ("Err", tracked[1])   # `helper(..)?` with the helper inlined: the Err it built on this path
            if isinstance(tracked, tuple) and tracked[0] == "residual":
                if isinstance(tracked[2], tuple) and tracked[2][0] == "errpayload":
                    return ("Err", tracked[2][1])
                return ("Residual", tracked[1], self.role_of_operand(self.B.term(tracked[1])["args"][0]))
            r = self.role_of_operand(t["args"][0])
            return ("Residual", bb, r)
        r_args = [self.role_of_operand(a) for a in t["args"]]
        if decl.endswith("CheckRestrictions::check_restrictions"):
            return ("Delegate", bb, M.Body.callee(t), r_args, decl)
        inst = M.Body.callee(t) or decl
        return ("Call", bb, inst, r_args, decl)


# =============================================================================================
# judging paths against the XSD oracle
# =============================================================================================

def satisfying(f):
    return ALL_ORD - VIOLATING[f]


def fmt_ord(s):
    return "{" + ",".join(sorted(s)) + "}"


def judge_leaf(ck, carrier, fn_path, an, paths, supported, site):
    """Leaf carrier (integer / String): every path's outcome against the facet oracle."""
    reported = set()

    cur = {"an": an}

    def viol(rule, desc, bb, what):
        if (rule, desc) in reported:
            return
        reported.add((rule, desc))
        where = site
        if bb is not None:
            # the block may belong to a spliced helper body; try that first
            for cand in (cur.get("sub"), an):
                if cand is not None and bb < len(cand.B.blocks):
                    where = cand.B.term(bb).get("sp", site)
                    break
        ck.violation(rule, desc, where, what, fn=carrier)

    n_ok = n_err = 0
    for p in paths:
        out = p["outcome"]
        st = p["st"]
        kind = out[0]
        cur["sub"] = p.get("sub")
        # events common to all outcomes
        for ev in st["events"]:
            if ev[0] == "len-unit" and ev[1] != "chars":
                viol("R6", f"{ev[2]}:length-in-{ev[1]}", ev[3],
                     f"length facet {ev[2]} is compared with the {ev[1]} length, not the character count")
            if ev[0] == "flag" and (ev[1].startswith("narrowing") or ev[1].startswith("fallible") or ev[1].startswith("lossy")):
                viol("R5", f"{ev[2]}:{ev[1].split(':')[0]}", ev[3],
                     f"value or bound reaches the {ev[2]} comparison through a lossy step ({ev[1]})")
            if ev[0] == "flag" and ev[1].startswith("unknown-cast"):
                viol("R5", f"{ev[2]}:unknown-cast", ev[3], f"cast not understood before the {ev[2]} comparison ({ev[1]})")
        for ev in st["events"]:
            if ev[0] == "member-via-any":
                why = check_any_closure(an, ev[1], negated=(len(ev) > 3 and ev[3]))
                if why:
                    viol("R1", "enumeration:any-closure", ev[2],
                         f"{carrier}: enumeration membership is tested with `any`, but {why}")
        if kind == "cut":
            viol("R2", "loop", out[1], "loop in a leaf restriction check: paths could not be enumerated")
            continue
        if kind == "panic":
            viol("R3", f"panic:{out[2]}", out[1], f"the check can panic ({out[2]}) instead of returning a result")
            continue
        if kind == "diverges":
            viol("R3", f"diverges:{out[2]}", out[1], f"the check diverges in {out[2]}")
            continue
        justified = None
        present = [f for f, v in st["P"].items() if v]
        for f in present:
            if f in VIOLATING and f in st["ord"] and st["ord"][f] <= VIOLATING[f]:
                justified = f
        if st["member"] is False and st["P"].get("enumeration"):
            justified = "enumeration"
        if kind == "Residual":
            _r = out[2]
            _src = _r.of if _r.kind == "residual" else _r
            if getattr(_src, "err", None) == "helper" and st.get("helper_err"):
                inner = st["helper_err"][1]
                if inner[0] == "Residual":
                    out = ("Residual", out[1], inner[2])
                else:
                    kind = "Err"
        if kind == "Err":
            n_err += 1
            if justified is None:
                # find the most specific description: the last comparison on the path
                cmps = [e for e in st["events"] if e[0] == "cmp"]
                if cmps:
                    f = cmps[-1][1]
                    viol("R1", f"{f}:rejects-when:{fmt_ord(st['ord'][f])}", out[1],
                         f"{carrier}: returns Err on a path where value?{f} ∈ {fmt_ord(st['ord'][f])}; XSD rejects only for "
                         f"{fmt_ord(VIOLATING[f])} (direction/strictness of the comparison is wrong)")
                elif st["R"] is not True:
                    viol("R3", "err-without-restrictions", out[1],
                         f"{carrier}: an Err is returned on a path on which no restriction set is present")
                else:
                    viol("R1", "err-unjustified", out[1],
                         f"{carrier}: an Err is returned on a path where no present facet is violated "
                         f"(path facts: present={sorted(present)}, member={st['member']})")
            continue
        if kind == "Residual":
            n_err += 1
            r = out[2]
            src = r.of if r.kind == "residual" else r
            errk = getattr(src, "err", None)
            if errk == "parse":
                if not any(st["P"].get(f) for f in NUMERIC):
                    viol("R3", "parse-without-numeric-facet", out[1],
                         f"{carrier}: text is parsed as a number (and rejected if it is not one) on a path where no numeric facet is present")
            elif errk == "conversion":
                viol("R5", "fallible-conversion", out[1],
                     f"{carrier}: the value is converted with a fallible (narrowing) conversion before checking; values outside the "
                     f"target range are rejected even when no restriction applies")
            elif errk in ("delegated", "helper"):
                pass  # judged at the delegation obligation
            else:
                viol("R3", "err-residual-unknown", out[1], f"{carrier}: error propagated from {src!r}")
            continue
        if kind in ("Delegate", "Call"):
            judge_delegation(ck, carrier, an, out, st, supported, site, viol)
            continue
        if kind == "Ok":
            n_ok += 1
            if st["R"] is False:
                continue
            if st["R"] is None and not supported:
                continue
            for f in supported:
                pv = st["P"].get(f)
                if pv is False:
                    continue
                if pv is None:
                    viol("R2", f"{f}:not-consulted", out[1],
                         f"{carrier}: an Ok return is reachable without consulting facet {f} (facet coverage)")
                    continue
                if f == "enumeration":
                    if st["member"] is not True:
                        viol("R1", "enumeration:accepts-non-member", out[1],
                             f"{carrier}: Ok is returned although membership in the enumeration was not established")
                    continue
                o = st["ord"].get(f)
                if o is None:
                    viol("R2", f"{f}:present-not-compared", out[1],
                         f"{carrier}: facet {f} is present on an Ok path but the value was never compared with it")
                elif not (o <= satisfying(f)):
                    cb = [e for e in st["events"] if e[0] == "cmp" and e[1] == f]
                    viol("R1", f"{f}:accepts-when:{fmt_ord(o)}", cb[-1][4] if cb else out[1],
                         f"{carrier}: returns Ok on a path where value?{f} ∈ {fmt_ord(o)}; XSD accepts only "
                         f"{fmt_ord(satisfying(f))} (direction/strictness of the comparison is wrong)")
            continue
        viol("R3", f"outcome-{kind}", out[1] if len(out) > 1 else None, f"{carrier}: return value of unknown shape ({out!r})")
    return n_ok, n_err


def check_any_closure(an, closure_operand, negated=False):
    """`enumeration.iter().any(|e| ...)`: the closure must compare (==) something derived from its element with
    something derived from the captured carrier value. Returns a reason string if not."""
    B = an.B
    origins = M.trace(B, closure_operand)
    agg = [o for o in origins if o.kind == "aggregate" and o.rv.get("closure")]
    if not agg:
        return "the predicate is not a closure literal"
    rv = agg[0].rv
    cb = an.F.lib.body(rv["closure"])
    if cb is None or not cb.get("mir"):
        return "the predicate closure body is not available"
    # which upvars carry the value?
    cap_roles = [an.role_of_operand(o) for o in rv["ops"]]
    value_upvars = {i for i, r in enumerate(cap_roles) if r.kind in ("value", "inner_value")}
    CB = M.Body(cb)
    for i in sorted(CB.reach):
        blk = CB.blocks[i]
        cands = []
        for st in blk["stmts"]:
            if st["k"] == "assign" and st["rv"]["k"] == "binop" and st["rv"]["op"] == ("Ne" if negated else "Eq"):
                cands.append((st["rv"]["a"], st["rv"]["b"]))
        t = blk.get("term") or {}
        if t.get("k") == "call" and (M.Body.callee_decl(t) or "").endswith("cmp::PartialEq::ne" if negated else "cmp::PartialEq::eq"):
            cands.append((t["args"][0], t["args"][1]))
        for a, b in cands:
            da, db = M.deps(CB, a), M.deps(CB, b)
            for x, y in ((da, db), (db, da)):
                el = any(r[0] == "arg" and r[1] == 2 for r in x)
                va = any(r[0] == "upvar" and r[1] in value_upvars for r in y)
                if el and va:
                    return None
    return "its body does not compare the enumeration element with the carrier value"


def judge_delegation(ck, carrier, an, out, st, supported, site, viol):
    """A path that returns the result of another check: `x.check_restrictions(r)` or a local helper."""
    kind, bb, callee, args, decl = out
    F = an.F
    # conversions on the way in
    for a in args:
        for fl in getattr(a, "flags", ()) or ():
            if fl.startswith(("narrowing", "fallible", "lossy", "unknown-cast")):
                viol("R5", f"delegation:{fl.split(':')[0]}", bb,
                     f"{carrier}: the value handed to the delegated check went through a lossy step ({fl})")
    for ev in st["events"]:
        if ev[0] == "result" and ev[1] == "conversion" and not getattr(ev[4], "infallible", False):
            pass  # the Err side of this conversion is judged on its own path
    val_ok = len(args) >= 1 and args[0].kind in ("value", "inner_value")
    if kind == "Delegate":
        restr_ok = len(args) >= 2 and args[1].kind == "restr_opt"
        if not val_ok:
            viol("R7", "delegation:value-arg", bb, f"{carrier}: delegated check receives {args[0]!r}, not the carrier value")
        if not restr_ok:
            viol("R7", "delegation:restrictions-arg", bb,
                 f"{carrier}: delegated check receives {args[1]!r} instead of the incoming restriction set")
        # the target impl must be a leaf impl that is itself judged (int carrier) - resolved instance required
        tgt = callee or ""
        if not tgt.startswith("<") or "CheckRestrictions" not in tgt:
            viol("R7", "delegation:unresolved", bb, f"{carrier}: delegated check does not resolve to a concrete impl ({tgt})")
        else:
            tgt_ty = tgt[1:].split(" as ")[0]
            if carrier in INT_CARRIERS and tgt_ty not in INT_CARRIERS + ("i128",):
                viol("R7", "delegation:target", bb, f"{carrier}: integer carrier delegates to the impl for {tgt_ty}")
            if st["R"] is not None or st["P"]:
                viol("R7", "delegation:after-partial-check", bb,
                     f"{carrier}: delegates after already branching on the restriction set (not a pure forwarding)")
        ck.ok("R7", f"delegates-to:{tgt}", an.B.term(bb).get("sp", site), f"{carrier} forwards to {tgt}", fn=carrier)
        return
    # local helper function: analyse it with the roles of the arguments
    fb = F.lib.body(callee) or F.lib.body(decl)
    if fb is None or not fb.get("mir") or an.depth >= 3:
        viol("R7", f"call:{decl}", bb, f"{carrier}: result of {decl} is returned but the callee cannot be analysed")
        return
    if st["R"] is not None or st["P"]:
        viol("R7", "helper:after-partial-check", bb, f"{carrier}: calls helper {decl} after branching on the restriction set")
    roles = {}
    for i, a in enumerate(args):
        if a.kind in ("value", "inner_value"):
            roles[i + 1] = Role("value", flags=set(getattr(a, "flags", set())))
        elif a.kind in ("restr_opt", "restr"):
            roles[i + 1] = a
        else:
            roles[i + 1] = a
    sub = Analyzer(F, fb, roles, an.depth + 1)
    try:
        paths = sub.explore()
    except Undecided as e:
        viol("R2", f"helper:{decl}:undecided", e.bb if e.bb is not None else bb,
             f"{carrier}: helper {decl} contains a branch the analysis cannot classify: {e.what}")
        return
    judge_leaf(ck, carrier, callee, sub, paths, supported, site)


def judge_never_reject(ck, carrier, an, paths, site):
    bad = [p for p in paths if p["outcome"][0] != "Ok"]
    if bad:
        p = bad[0]
        ck.violation("R4", f"can-reject:{p['outcome'][0]}", an.B.term(p["outcome"][1]).get("sp", site) if len(p["outcome"]) > 1 and p["outcome"][1] is not None else site,
                     f"{carrier}: floating-point / boolean carriers must never be rejected, but a path ends in {p['outcome'][0]}", fn=carrier)
    else:
        ck.ok("R4", "never-rejects", site, f"{carrier}: all {len(paths)} paths return Ok", fn=carrier)


def judge_wrapper(ck, carrier, an, paths, site, shape):
    """Option<C> / Vec<C> / MultiRef<C>: result is exactly the delegated result(s)."""
    problems = []
    n_deleg = 0
    for p in paths:
        out, st = p["outcome"], p["st"]
        kind = out[0]
        if kind == "cut":
            continue
        deleg = [e for e in st["events"] if e[0] == "delegated"]
        res = [e for e in st["events"] if e[0] == "result" and e[1] == "delegated"]
        n_deleg = max(n_deleg, len(deleg))
        # every delegated call on the path must have its result inspected by `?` / returned
        returned_directly = kind == "Delegate"
        if len(res) + (1 if returned_directly else 0) < len(deleg):
            problems.append(("result-ignored", deleg[-1][1],
                             "the result of a delegated check is neither propagated nor returned"))
        for e in res:
            r = e[4]
            a = r.args
            want0 = {"option": ("inner_value",), "vec": ("element",), "wrapper": ("inner_value", "value")}[shape]
            if not a or a[0].kind not in want0:
                problems.append(("value-arg", e[3], f"delegated check receives {a[0]!r} as the value"))
            if len(a) < 2 or a[1].kind != "restr_opt":
                problems.append(("restrictions-arg", e[3], f"delegated check receives {a[1]!r} instead of the incoming restriction set"))
            if shape == "vec" and a and a[0].kind == "element":
                it = a[0].of
                if it.kind != "iter" or it.of.kind != "value_vec" or it.adapters:
                    problems.append(("iteration", e[3], f"elements come from {it!r}, not from an unfiltered iteration of self"))
        if kind == "Delegate":
            a = out[3]
            if a[0].kind not in ("inner_value", "value", "element"):
                problems.append(("value-arg", out[1], f"delegated check receives {a[0]!r} as the value"))
            if len(a) < 2 or a[1].kind != "restr_opt":
                problems.append(("restrictions-arg", out[1], f"delegated check receives {a[1]!r} instead of the incoming restriction set"))
        elif kind == "Ok":
            if any(e[2] is False for e in res):
                problems.append(("ok-after-err", out[1], "Ok is returned on a path where a delegated check failed"))
            if shape == "option" and st["self_some"] is True and not deleg:
                problems.append(("skipped", out[1], "Some(value) is accepted without checking the inner value"))
            if shape == "wrapper" and not deleg:
                problems.append(("skipped", out[1], "Ok is returned without delegating to the wrapped value"))
            if shape == "vec":
                nexts = [e for e in st["events"] if e[0] == "next"]
                if not nexts or nexts[-1][1] is not False:
                    problems.append(("early-ok", out[1], "Ok is returned before the iteration over self is exhausted"))
                somes = sum(1 for e in nexts if e[1])
                if somes > len(deleg):
                    problems.append(("skipped", out[1], "an element is passed over without a delegated check"))
        elif kind == "Residual":
            src = out[2].of if out[2].kind == "residual" else out[2]
            if getattr(src, "err", None) != "delegated":
                problems.append(("foreign-error", out[1], f"an error not coming from the delegated check is returned ({src!r})"))
        elif kind == "Err":
            problems.append(("own-error", out[1], "the wrapper constructs an error of its own"))
        elif kind == "Call" and shape == "vec" and (out[4] or "").endswith("Iterator::try_for_each"):
            # `self.iter().try_for_each(|item| item.check_restrictions(r.clone()))`: stops at and returns the first error
            why = _try_for_each_delegates(an, out)
            if why:
                problems.append(("iteration", out[1], why))
            else:
                n_deleg = max(n_deleg, 1)
        else:
            problems.append((f"outcome-{kind}", out[1] if len(out) > 1 else None, f"path outcome {kind}"))
    if n_deleg == 0:
        problems.append(("no-delegation", None, "no delegated check_restrictions call found"))
    seen = set()
    for desc, bb, what in problems:
        if desc in seen:
            continue
        seen.add(desc)
        ck.violation("R7", desc, an.B.term(bb).get("sp", site) if bb is not None else site, f"{carrier}: {what}", fn=carrier)
    if not problems:
        ck.ok("R7", "delegation", site, f"{carrier}: {len(paths)} paths, result is exactly the delegated result", fn=carrier)


def _try_for_each_delegates(an, out):
    """None when the returned `iter.try_for_each(closure)` checks every element of self with the incoming restriction set and
    hands the closure's result on; else the reason."""
    B = an.B
    t = B.term(out[1])
    it = out[3][0] if out[3] else None
    if it is None or it.kind != "iter" or it.of.kind != "value_vec" or it.adapters:
        return f"elements come from {it!r}, not from an unfiltered iteration of self"
    agg = [o for o in M.trace(B, t["args"][1]) if o.kind == "aggregate" and o.rv.get("closure")]
    if len(agg) != 1:
        return "the per-element function is not a closure literal"
    cb = an.F.lib.body(agg[0].rv["closure"])
    if cb is None or not cb.get("mir"):
        return "the closure body is not available"
    cap_roles = [an.role_of_operand(o) for o in agg[0].rv["ops"]]
    CB = M.Body(cb)
    dels = CB.calls_to("CheckRestrictions::check_restrictions")
    if len(dels) != 1:
        return f"the closure makes {len(dels)} delegated checks (expected one per element)"
    dbb, dt = dels[0]
    v = M.trace(CB, dt["args"][0], M.IDENTITY_CALLS)
    if not (v and all(o.kind == "arg" and o.local == 2 for o in v)):
        return "the delegated check does not receive the element"
    r = M.trace(CB, dt["args"][1], M.IDENTITY_CALLS)
    if not (r and all(o.kind == "upvar" and o.index < len(cap_roles) and cap_roles[o.index].kind == "restr_opt" for o in r)):
        return "the delegated check does not receive the incoming restriction set"
    flow = {k for k, _ in M.result_flow(CB, dbb, dt)}
    if not flow <= {"returned", "propagated"}:
        return f"the result of the delegated check is {sorted(flow)} inside the closure"
    others = [M.Body.callee_decl(x) for _, x in CB.calls() if x is not dt and not (M.Body.callee_decl(x) or "").endswith(
        ("clone::Clone::clone", "ops::Deref::deref", "ops::Try::branch", "FromResidual::from_residual"))]
    if others:
        return f"the closure does more than delegating: {others}"
    return None


def classify_carrier(self_ty):
    if self_ty in INT_CARRIERS:
        return "int"
    if self_ty == "std::string::String":
        return "string"
    if self_ty in ("f32", "f64", "bool"):
        return "never"
    if self_ty.startswith("std::option::Option<"):
        return "option"
    if self_ty.startswith("std::vec::Vec<"):
        return "vec"
    if "multi_ref::MultiRef<" in self_ty:
        return "wrapper"
    return None


REQUIRED_CARRIERS = ["i8", "u8", "i16", "u16", "i32", "u32", "i64", "u64", "f32", "f64", "bool",
                     "std::string::String", "option", "vec"]


def rule_text_carrier_domain(ck, F):
    """A simple type that restricts a builtin other than string is written as `struct T { value: String }`; its facets are checked by
    the String carrier. Where that carrier reads the text as an integer (`parse::<i128>`) and the builtin table maps decimal / double /
    float to a float type, a value of such a type with a fraction or exponent is refused as soon as a numeric facet is present,
    although it meets the facet."""
    from rules import c02 as C02
    from rules import templates as T
    int_parse = None
    for b in scans.bodies(F.lib):
        if "std::string::String as" in b["path"] and "CheckRestrictions" in b["path"] and not b.get("closure"):
            B = M.Body(b)
            for bb, t in B.calls():
                f = t.get("func") or {}
                if (f.get("fn_path") or "").endswith("str>::parse") and (f.get("gargs") or [""])[0] in ("i8", "i16", "i32", "i64", "i128", "u8", "u16", "u32", "u64", "u128", "isize", "usize"):
                    int_parse = (B.term(bb).get("sp"), f["gargs"][0])
    table, _fall, _site = C02.builtin_table(F)
    floats = sorted(k for k, v in (table or {}).items() if v and v.rsplit("::", 1)[-1] in ("F32", "F64"))
    X = T.extractor(F)
    text_carried = any(ev.kind == "emit" and ev.skeleton().strip() == "pub value: String" for evs in X.events.values() for ev in evs)
    if int_parse and floats and text_carried:
        ck.violation("R8", "text-carrier:decimal", int_parse[0],
                     f"a simple type over {', '.join('xs:' + f_ for f_ in floats)} is written as `value: String` and checked by the String carrier, which reads the "
                     f"text with `parse::<{int_parse[1]}>` once a numeric facet is present: \"12.50\" under `minInclusive=0 maxInclusive=100` is refused "
                     f"(\"invalid digit found in string\") although it meets both facets")
    else:
        ck.ok("R8", "text-carrier:decimal", "-", "no decimal / float type is carried as text and checked as an integer")
    # which types get a numeric facet at all is decided where the facets are written: a bound is the facet's text read as one integer
    # (C07.R6 `partial-text`, kept: a bound made from the part of `0.00` in front of the point puts decimal types under the integer check)
    from rules import c04 as C04
    # .. and the check is handed the facets as declared (kept from C07.R5: the set that arrives from a derived type reaches a check of
    # its own) — and no function of the emitted module makes a set of facets out of others: a facet of a set that is checked is a
    # declared value or absent, never the result of a computation (`Some(100).min(None)` is `None`: the smaller of two upper bounds
    # taken with `Option::min` loses the bound that only one of the sets has)
    T.c07_template_rules(C04._Sub(ck, "R8", lambda key: "partial-text" in key or ":incoming-" in key), F)
    n_sets = 0
    for b in scans.bodies(F.lib):
        if "helpers_content" not in b["path"] or "tests::" in b["path"]:
            continue
        B = M.Body(b)
        for i in sorted(B.reach):
            for st in B.blocks[i]["stmts"]:
                rv = st.get("rv") or {}
                if not (st["k"] == "assign" and rv.get("k") == "aggregate" and rv.get("ak") == "adt" and str(rv.get("adt", "")).endswith("helpers_content::restrictions::Restrictions")):
                    continue
                n_sets += 1
                names = rv.get("fields") or []
                computed = []
                for fname, op in zip(names, rv["ops"]):
                    for o in M.trace(B, op):
                        plain = (o.kind == "const" or (o.kind == "aggregate" and o.rv.get("variant") == "None")
                                 or (o.kind == "call" and (M.Body.callee_decl(o.term) or "").endswith(("default::Default::default", "Vec::<T>::new", "Option::<T>::None")))
                                 or (o.kind in ("arg", "upvar") and (not o.fields() or o.fields()[-1] == fname)))
                        if not plain:
                            computed.append((fname, (M.Body.callee_decl(o.term) or "?").rsplit("::", 1)[-1] if o.kind == "call" else o.kind))
                short = b["path"].rsplit("::", 1)[-1]
                if computed:
                    ck.violation("R8", f"facet-computed:{short}:{computed[0][0]}", st.get("sp"),
                                 f"{b['path']} builds a set of facets whose `{computed[0][0]}` is the result of `{computed[0][1]}` "
                                 f"({', '.join(sorted({c_[0] for c_ in computed}))}): what a value is checked against is then not what a schema declares "
                                 f"(a bound present in only one of two merged sets is lost by `Option::min`, kept by `Option::max`)", fn=b["path"])
                else:
                    ck.ok("R8", f"facet-set-plain:{short}", st.get("sp"), "a set of facets built in the emitted module holds declared values only", fn=b["path"])
    ck.floor("R8", "constructions of a facet set in the emitted module", n_sets, 1)


def run(ck, F):
    ck.explanation = (
        "Static path enumeration over the MIR control-flow graphs of every `impl CheckRestrictions` of the emitted helper "
        "module. Each branch condition is classified by def-use origin tracing into a closed set of atoms (restriction set "
        "present, facet present, value/char-count ordered against a facet bound, enumeration membership, fallible "
        "conversion, delegated check). Since the value is only touched through these atoms, the enumerated paths are the "
        "function's behaviour for all inputs; each path outcome is compared with the XSD facet oracle. Unclassifiable "
        "branches are reported, never assumed. The code is not executed.")
    ck.assumptions = [
        "helpers_content.rs compiled into zeep-lib is byte-identical to the emitted helper text (checked by C01.R2)",
        "std::str::parse, chars().count(), From/Into widening and slice::contains behave as documented",
        "numerals that do not fit the parse type in the String numeric-text path are outside the claim",
    ]
    ck.rule("R1", "comparison polarity: on every path, Err iff some present facet is violated under XSD semantics "
                  "(v>=minInclusive, v<=maxInclusive, v>minExclusive, v<maxExclusive, len==length, minLength<=len<=maxLength, "
                  "enumeration membership); direction, strictness, operand order and branch sense are all covered")
    ck.rule("R2", "facet coverage: no Ok return is reachable without consulting every facet the carrier supports")
    ck.rule("R3", "no restriction set => accept: no Err/panic on a path on which no facet is present")
    ck.rule("R4", "f32/f64/bool carriers have no rejecting path")
    ck.rule("R5", "no narrowing: value and bounds reach comparisons through lossless steps only")
    ck.rule("R6", "length facets are compared with the character count (chars().count()), not the byte length")
    ck.rule("R8", "the value space of a text carrier: where values of a decimal / float type are carried as text, the numeric facets of the text "
                  "carrier are decided on decimals, not on integers only")
    ck.rule("R7", "Option/Vec/MultiRef and forwarding impls return exactly the delegated result, for the same restriction "
                  "set, over every element")
    rule_text_carrier_domain(ck, F)
    impls = [i for i in F.lib.items["impls"] if i.get("trait") == TRAIT]
    ck.count("impls", len(impls))
    seen = set()
    work = []
    for imp in impls:
        st = imp["self_ty"]
        local_bounds = [b_ for b_ in imp.get("self_bounds") or [] if not b_.startswith(("std::", "core::", "alloc::"))]
        if re.fullmatch(r"[A-Z]\w*", st) and "::" not in st and local_bounds:
            # a blanket impl `impl<I: Marker> CheckRestrictions for I`: one body for every type that implements the (crate's own)
            # bound; it is judged once per such carrier
            covered = sorted({i2["self_ty"] for i2 in F.lib.items["impls"] if i2.get("trait") in local_bounds})
            for c_ in covered:
                work.append((c_, imp, f"<{st} as {TRAIT}>::check_restrictions"))
            if covered:
                continue
        work.append((st, imp, f"<{st} as {TRAIT}>::check_restrictions"))
    for self_ty, imp, path in work:
        cls = classify_carrier(self_ty)
        fb = F.lib.body(path)
        site = imp["span"]
        if fb is None or not fb.get("mir"):
            # the impl relies on the trait's default body (accepts everything)
            if cls == "never":
                ck.ok("R4", "default-body", site, f"{self_ty}: uses the trait default (always Ok)", fn=self_ty)
                seen.add(self_ty)
            else:
                ck.violation("R2", "default-body", site,
                             f"{self_ty}: impl has no check_restrictions body of its own; the trait default accepts everything",
                             fn=self_ty)
            continue
        if cls is None:
            ck.undecided("R2", "unknown-carrier", site, f"impl CheckRestrictions for {self_ty}: carrier class unknown", fn=self_ty)
            continue
        seen.add(cls if cls in ("option", "vec", "wrapper") else self_ty)
        roles = {2: Role("restr_opt")}
        roles[1] = Role({"int": "value", "string": "value", "never": "value", "option": "value_opt", "vec": "value_vec",
                         "wrapper": "wrapped"}[cls])
        an = Analyzer(F, fb, roles)
        if imp["self_ty"] != self_ty:
            an.type_alias = {imp["self_ty"]: self_ty}
        if cls == "wrapper":
            # self.inner (Arc<C>) derefs to the wrapped value
            an.roles[1] = Role("wrapped")
        try:
            paths = an.explore()
        except Undecided as e:
            ck.undecided("R2", f"branch:{e.what[:80]}", an.B.term(e.bb).get("sp", site) if e.bb is not None else site,
                         f"{self_ty}: a branch condition is outside the closed set of atoms: {e.what}", fn=self_ty)
            continue
        ck.count("paths", len(paths))
        ck.count("blocks", len(an.B.reach))
        if cls == "int":
            ok, err = judge_leaf(ck, self_ty, path, an, paths, NUMERIC + ("enumeration",), site)
        elif cls == "string":
            ok, err = judge_leaf(ck, self_ty, path, an, paths, LENGTH + ("enumeration",) + NUMERIC, site)
        elif cls == "never":
            judge_never_reject(ck, self_ty, an, paths, site)
        else:
            judge_wrapper(ck, self_ty, an, paths, site, cls)
        before = [o for o in ck.obligations if o["status"] == "violated" and o["key"].split("|")[2] == self_ty]
        if cls in ("int", "string") and not before:
            ck.ok("R1", "oracle", site, f"{self_ty}: {len(paths)} paths agree with the XSD facet oracle", fn=self_ty)
    for need in REQUIRED_CARRIERS:
        if need not in seen:
            ck.undecided("R2", f"missing-impl:{need}", "-", f"no impl CheckRestrictions for carrier {need} was found", fn=need)
    ck.floor("R2", "CheckRestrictions impls analysed", len(work), 14)
