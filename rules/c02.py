"""C02 — generated structs mirror the schema: members, occurrence, types, names."""
import re

from engine.rulekit import fde
from engine.rulekit import hir as Hh
from engine.rulekit import og
from rules import anchors as A
from engine.rulekit import scans
from rules import templates as T

# XSD builtin -> Rust type text (the documented mapping; 27 rows)
BUILTINS = {
    "byte": "i8", "short": "i16", "int": "i32", "integer": "i32", "long": "i64",
    "unsignedByte": "u8", "unsignedShort": "u16", "unsignedInt": "u32", "unsignedLong": "u64",
    "negativeInteger": "i32", "nonNegativeInteger": "i32", "nonPositiveInteger": "i32", "positiveInteger": "i32",
    "float": "f32", "double": "f64", "decimal": "f64", "boolean": "bool",
    "string": "String", "normalizedString": "String", "base64Binary": "String", "hexBinary": "String", "anyURI": "String",
    "date": "String", "dateTime": "String", "time": "String", "language": "String", "duration": "String",
}
AS_RUST_TYPE = "model::field::as_rust_type"
DISPLAY = "<model::field::RustFieldType as std::fmt::Display>::fmt"
FLATTENERS = ("complex::ComplexProps as model::TryFromNode<'n>>::try_from_node", "complex::read_complex_content_node",
              "complex::read_sequence_node", "complex::import_sequence_node_fields", "complex::import_choice_fields",
              "complex::import_extension_fields")
BAD_VEC_OPS = {"insert", "sort", "sort_by", "sort_by_key", "sort_unstable", "sort_unstable_by", "sort_unstable_by_key", "sort_by_cached_key",
               "select_nth_unstable", "select_nth_unstable_by", "select_nth_unstable_by_key", "reverse", "dedup", "dedup_by", "dedup_by_key",
               "retain", "truncate", "swap", "remove", "pop", "clear", "drain", "swap_remove", "split_off", "rotate_left",
               "rotate_right"}
REORDERING = ("partition", "partition_in_place", "rev", "sorted", "sorted_by", "sorted_by_key", "group_by", "chunk_by", "unzip", "max_by_key", "min_by_key")
BAD_ITER_ADAPTERS = ("take", "skip", "step_by", "rev", "take_while", "skip_while", "nth", "last", "peekable", "fuse")


def _reachable_bodies(F, root, depth=3):
    """the function `root` and the local functions / closures it can call, nearest first"""
    g = scans.call_graph(F.lib)
    seen, order, frontier = {root}, [root], [root]
    for _ in range(depth):
        nxt = []
        for fn in frontier:
            for c in sorted(g.get(fn, ())):
                if c not in seen and F.lib.body(c) is not None and F.lib.body(c).get("hir") is not None:
                    seen.add(c)
                    order.append(c)
                    nxt.append(c)
        frontier = nxt
    return order


def builtin_table(F):
    """(table builtin -> variant path, function holding the table, site): the large `match` on string literals whose arms are
    RustFieldType variants (bare or wrapped in Some/Ok), in as_rust_type or in a function it calls"""
    for fn in _reachable_bodies(F, AS_RUST_TYPE):
        b = F.lib.body(fn)
        if b is None or b.get("hir") is None or b.get("closure"):
            continue
        nb = Hh.norm_body(b)
        for x in Hh.exprs(nb["value"]):
            if x.get("k") == "Match" and len(x["arms"]) > 5:
                table = {}
                fall = None
                for a in x["arms"]:
                    lits = _pat_literals(a["pat"])
                    body = Hh.strip(a["body"])
                    while True:
                        if body.get("k") == "Block" and not body["b"]["stmts"] and body["b"].get("tail"):
                            body = Hh.strip(body["b"]["tail"])
                        elif body.get("k") == "Call" and (Hh.callee_path(body) or "").rsplit("::", 1)[-1] in ("Some", "Ok") and len(body["args"]) == 1:
                            body = Hh.strip(body["args"][0])
                        else:
                            break
                    if lits is None:
                        fall = a
                        continue
                    var = body.get("path") if body.get("k") == "Path" else None
                    for l in lits:
                        table[l] = var
                if sum(1 for v in table.values() if v and "RustFieldType" in v) > 5:
                    return table, fn, Hh.sp(x)
    # the table as data: a constant array of (name, variant) pairs that a function reachable from as_rust_type searches
    for cb in F.lib.bodies:
        if not str(cb.get("kind", "")).startswith(("Const", "Static")) or cb.get("hir") is None or "{constant" in cb["path"]:
            continue
        nb = Hh.norm_body(cb)
        rows = {}
        for x in Hh.exprs(nb["value"]):
            if x.get("k") == "Array":
                for el in x["es"]:
                    el = Hh.strip(el)
                    if el.get("k") == "Tup" and len(el["es"]) == 2:
                        a, b_ = Hh.strip(el["es"][0]), Hh.strip(el["es"][1])
                        if a.get("k") == "Lit" and a.get("lit") == "str" and b_.get("k") == "Path" and "RustFieldType" in (b_.get("path") or ""):
                            rows[a["v"]] = b_["path"]
        if len(rows) > 5:
            users = []
            for fn in _reachable_bodies(F, AS_RUST_TYPE):
                fb = F.lib.body(fn)
                if fb is None or fb.get("hir") is None:
                    continue
                if any(y.get("k") == "Path" and y.get("path") == cb["path"] for y in Hh.exprs(Hh.norm_body(fb)["value"])):
                    users.append(fn)
            if users:
                TABLE_LOOKUP[cb["path"]] = users
                return rows, cb["path"], cb.get("span", "-")
    return None, None, None


TABLE_LOOKUP = {}
INEXACT = ("eq_ignore_ascii_case", "to_lowercase", "to_uppercase", "to_ascii_lowercase", "to_ascii_uppercase", "starts_with", "ends_with",
           "contains", "trim", "trim_start", "trim_end", "trim_matches", "strip_prefix", "strip_suffix", "find", "matches")


def table_lookup_exact(F, const_path):
    """The functions that search a constant builtin table compare names with `==` only. -> (ok, what was found)"""
    found = []
    for fn in TABLE_LOOKUP.get(const_path, []):
        nb = Hh.norm_body(F.lib.body(fn))
        eq = False
        for y in Hh.exprs(nb["value"]):
            if y.get("k") == "Binary" and y.get("op") == "Eq":
                eq = True
            if y.get("k") == "MethodCall" and y["name"] in ("eq",):
                eq = True
            if y.get("k") == "MethodCall" and y["name"] in INEXACT:
                rty = (Hh.strip(y["recv"]).get("ty") or "").replace("&", "").replace("mut ", "").replace("'static ", "").strip()
                if rty in ("str", "std::string::String", "String"):
                    found.append(y["name"])
        # a bisection of the (sorted) table compares whole names as well: `binary_search(&name)`, `binary_search_by_key(&name, |row| row.0)`,
        # `binary_search_by(|row| row.0.cmp(name))` — exact where the rows are in ascending order of the name (an obligation of its own)
        for y in Hh.exprs(nb["value"]):
            if y.get("k") == "MethodCall" and str(y["name"]).startswith("binary_search"):
                by = y["name"]
                if by == "binary_search_by":
                    clo = Hh.strip(y["args"][0]) if y["args"] else {}
                    body = Hh.strip(clo["body"]["value"]) if clo.get("k") == "Closure" else {}
                    while body.get("k") == "Block" and not body["b"]["stmts"] and body["b"].get("tail"):
                        body = Hh.strip(body["b"]["tail"])
                    if not (body.get("k") == "MethodCall" and body["name"] == "cmp"):
                        found.append("binary_search_by with a comparison that is not `cmp` of the names")
                        continue
                BISECTED.add(const_path)
                eq = True
        if not eq and not found:
            found.append("no equality comparison")
    return (not found), found


BISECTED = set()


def _pat_literals(p):
    k = p.get("k")
    if k == "Expr" and p.get("lit") == "str":
        return [p["v"]]
    if k == "Or":
        out = []
        for q in p["pats"]:
            r = _pat_literals(q)
            if r is None:
                return None
            out += r
        return out
    return None


def display_table(X):
    """variant path -> emitted text of Display for RustFieldType: the text its `fmt` writes, evaluated for each unit variant (however the
    body is arranged: one `match` of writes, a table of names followed by a write, ..); else read off the output grammar"""
    tab = {}
    enum = next((e_ for e_ in X.F.lib.items["enums"] if e_["path"] == "model::field::RustFieldType"), None)
    summ = og.CallExpander(X.F).display_summary("model::field::RustFieldType")
    if enum is not None and summ is not None:
        for v_ in enum["variants"]:
            if v_["fields"]:
                continue
            path = f"{enum['path']}::{v_['name']}"
            try:
                txt = fde.Evaluator({("param", "self"): ("variant", path)}).ev(summ)
            except fde.Undecided:
                continue
            if isinstance(txt, str):
                tab[path] = txt
        if tab:
            return tab
    for ev in X.events.get(DISPLAY, []):
        if ev.kind != "emit":
            continue
        var = None
        for c in ev.ctx:
            if c[0] == "alt" and c[1][0] == "islet" and c[1][2] == ("param", "self"):
                var = c[1][1]
        if var is not None and not ev.holes():
            tab[var] = ev.text()
    return tab


def run(ck, F):
    ck.explanation = (
        "(R1) the XSD-builtin table is extracted as data from the typed HIR of the `match` in as_rust_type and composed with the "
        "Display arms of RustFieldType taken from the output grammar, then compared row by row with the documented 27-row mapping; "
        "(R2) the occurrence flags of every Field constructor site are provenance normal forms over XML attribute lookups; a "
        "finite-domain evaluator computes them, and the Vec/Option/bare selection of the field emitter, for every combination in "
        "the finite partition {tag, own/parent minOccurs, own/parent maxOccurs, use, parent tag} induced by the literals the code "
        "compares with - the expressions distinguish nothing else, so this is their behaviour on all inputs - and compares with "
        "the property's oracle; (R3) loops over children() in the flattening functions have no early exit and the field vector is "
        "only appended to; (R4) the child tags each container handler dispatches on are extracted and compared with the required "
        "sets; (R5) each node is emitted by exactly one of two partitioning loops; (R6) naming normal forms. Nothing is executed.")
    ck.assumptions = ["roxmltree returns attribute text verbatim", "Inflector case conversion is injective on the names of one schema (not decided)"]
    ck.rule("R1", "builtin table: as_rust_type ∘ Display(RustFieldType) equals the documented mapping of the 27 XSD builtins; the "
                  "fall-through arm builds Other{pascal(local), module(prefix)}")
    ck.rule("R2", "occurrence truth table: Vec<T> iff own/parent maxOccurs is unbounded or an integer > 1; else Option<T> iff "
                  "(element: own/parent minOccurs=0 or parent is a choice) / (attribute: use != required); else T; attribute=true iff attribute")
    ck.rule("R3", "complete traversal: child loops of the flattening functions exit only on exhaustion or error; fields are only pushed/extended")
    ck.rule("R4", "dispatch sets: complexType ⊇ {sequence, complexContent, attribute}; extension ⊇ {sequence, attribute}; sequence/choice ⊇ {choice, sequence}")
    ck.rule("R5", "one node per top-level child, one emission per node (the two emission loops partition the node list); merging an imported "
                  "document appends each of its component collections as a whole")
    ck.rule("R6", "naming: struct name = pascal(xml name); field name = rename_keywords(snake(xml name)); both emitted `pub`")
    X = T.extractor(F)
    rule_builtins(ck, F, X)
    rule_occurrence(ck, F, X)
    rule_traversal(ck, F, X)
    rule_dispatch(ck, F, X)
    rule_emission(ck, F, X)
    rule_merge_keeps_components(ck, F)
    rule_every_schema_read(ck, F)
    rule_imports_followed(ck, F)
    from rules import c11 as C11
    C11.rule_every_import_followed(ck, F, rule="R5")
    # .. and the file an import names is the file that is read: looked up under the name the import gives, among the files of the one
    # directory the start file lies in (C11.R4, kept: with a file of another directory in its place the types of the output are not the
    # schema's)
    from rules import c04 as C04
    sub = C04._Sub(ck, "R5", lambda key: key.startswith(("lookup-key", "key-", "siblings:other-directory", "siblings:one-directory")) or "floor" in key)
    C11.rule_verbatim_keys(sub, F, "R4")
    ub_ = F.lib.body("utils::read_input_file_and_xsd_files_at_path")
    if ub_ is not None:
        C11.rule_all_siblings_visited(sub, F, ub_, "R4")
    rule_naming(ck, F, X)
    rule_components_by_name(ck, F)


def rule_builtins(ck, F, X, rule="R1", want=BUILTINS):
    table, fall, site = builtin_table(F)
    if table is None:
        ck.undecided(rule, "table", "-", "the builtin `match` in as_rust_type was not found")
        return
    disp = display_table(X)
    ck.count(f"{rule}:builtin rows", len(table))
    for b, rust in sorted(want.items()):
        var = table.get(b)
        if var is None:
            ck.violation(rule, f"{b}:missing", site, f"xs:{b} has no row in the builtin table: it falls through to a user type named `{b}`")
            continue
        text = disp.get(var)
        if text == rust:
            ck.ok(rule, f"{b}", site, f"xs:{b} -> {var.rsplit('::', 1)[-1]} -> `{text}`")
        else:
            ck.violation(rule, f"{b}", site, f"xs:{b} is mapped to {var.rsplit('::', 1)[-1]} which is printed as `{text}`; documented mapping is `{rust}`")
    if rule == "R1" and fall in TABLE_LOOKUP:
        ok_, what = table_lookup_exact(F, fall)
        if ok_:
            ck.ok(rule, "lookup-exact", site, "the builtin table is searched by exact name")
            if fall in BISECTED:
                names = list(table)
                if names == sorted(names) and len(set(names)) == len(names):
                    ck.ok(rule, "table-sorted", site, "the builtin table is searched by bisection and its rows are in ascending (byte) order of the name")
                else:
                    bad = next((b_ for a_, b_ in zip(names, names[1:]) if not a_ < b_), "?")
                    ck.violation(rule, "table-sorted", site, f"the builtin table is searched by bisection but is not sorted (at `{bad}`): rows behind the misplaced "
                                 f"one are not found and those builtins become user types")
        else:
            ck.violation(rule, "lookup-exact", site, f"the builtin table is not searched by exact name ({sorted(set(what))}): a schema type whose name differs "
                         f"from a builtin only by that (case, prefix, surrounding text) is mapped to the builtin's Rust type instead of its own struct")
    if rule == "R1":
        # what a name outside the table becomes: an OtherRustType built in as_rust_type (or in a helper / closure of it) from the
        # PascalCase local name and the module of the prefix
        CE = og.CallExpander(F)
        sites = [x for x in og.field_summaries(F, "field::OtherRustType") if x[0] == AS_RUST_TYPE]
        good = False
        descr = []
        for (fn_, site_, ctx_, fields_, base_) in sites:
            nm = CE.expand(fields_.get("name", ("unknown", "?")))
            md = og.nf_str(CE.expand(fields_.get("module", ("unknown", "?"))))
            chain, _root = og.sanitiser_chain(nm)
            descr.append(f"name via {chain}, module {md[:60]}")
            if "to_pascal_case" in chain and ("find_module_name_from_namespace_reference" in md or "rust_mod_name" in md):
                good = True
        if good:
            ck.ok(rule, "fallthrough", site, "non-builtin names become Other{pascal(local name), module of the prefix}")
        else:
            ck.violation(rule, "fallthrough", site, f"as_rust_type does not build Other{{to_pascal_case(..), module of the prefix}} for names outside the table: {descr}")
        ck.floor(rule, "builtin rows", len(table), 27)


# ---- R2 ---------------------------------------------------------------------------------------------

MIN = [None, "0", "1", "x"]
# (the two long numerals: the first number a 32-bit reading does not hold, and the 2^63 - 1 that tooling writes for "no limit")
MAX = [None, "0", "1", "2", "17", "4294967296", "9223372036854775807", "unbounded", "x"]
USE = [None, "optional", "required", "x"]
PTAG = ["sequence", "choice", "complexType", "extension", "all"]


def repeats(v):
    return v == "unbounded" or (v is not None and v.isdigit() and int(v) > 1)


def oracle(tag, a):
    if tag == "attribute":
        return ("Option" if a["use"] != "required" else "bare"), True
    if repeats(a["max"]) or repeats(a["pmax"]):
        return "Vec", False
    if a["min"] == "0" or a["pmin"] == "0" or a["ptag"] == "choice":
        return "Option", False
    return "bare", False


OCCURRENCE_VOCABULARY = {"minOccurs", "maxOccurs", "use", "ref", "name"}
NOT_OCCURRENCE = {"xml_name", "rust_name", "rust_type", "target_namespace", "is_any", "is_choice", "comment"}


def _attribute_names(nf, acc=None):
    """names of the attributes a value depends on: literal second arguments of `attribute(..)` / `has_attribute(..)` calls"""
    acc = set() if acc is None else acc
    if isinstance(nf, tuple):
        if nf and nf[0] == "call" and str(nf[1]).rsplit("::", 1)[-1] in ("attribute", "has_attribute", "attribute_node") and len(nf) > 2 and len(nf[2]) == 2 \
                and isinstance(nf[2][1], tuple) and nf[2][1][0] == "lit" and isinstance(nf[2][1][1], str):
            acc.add(nf[2][1][1])
        for x in nf:
            _attribute_names(x, acc)
    elif isinstance(nf, (list, dict)):
        for x in (nf.values() if isinstance(nf, dict) else nf):
            _attribute_names(x, acc)
    return acc


def rule_occurrence(ck, F, X):
    fde.register_constants(F)
    n_foreign = 0
    CE = og.CallExpander(F)
    CEM = og.CallExpander(F, general_matches=True)
    live = scans.api_reachable(F.lib)
    sites = [s for s in og.field_summaries(F, "model::field::Field") if "try_from_node" in s[0] and s[0] in live]
    ck.floor("R2", "Field constructor sites", len(sites), 2)
    # wrapper selection and attribute flag from the field emitter: the member / attribute templates (one per branch in the
    # canonical output grammar) and the conditions each is emitted under
    member_vars, attr_vars = [], []
    for ev in X.events.get(T.FIELD_WRITER, []):
        if ev.kind != "emit":
            continue
        sk = ev.skeleton()
        if re.match(r"^\s*pub \{\}: ", sk):
            member_vars.append(ev)
        if "#[yaserde(" in sk:
            attr_vars.append(ev)
    if not member_vars or not attr_vars:
        ck.undecided("R2", "field-emitter", "-", "the wrapper selection / attribute flag of the field emitter was not recognised")
        return

    def select(variants, ev2, classify):
        """classification of the templates whose (decidable) conditions hold under the evaluator's assignment"""
        outs = set()
        for v in variants:
            ok = True
            for c in v.ctx:
                if c[0] != "alt":
                    continue
                try:
                    val = ev2.ev(CEM.expand(c[1]))      # (accessor methods of the model — `self.is_vec()` — are read as what they return)
                except fde.Undecided:
                    continue  # a condition over something else than the occurrence flags (e.g. the namespace): both branches considered
                if bool(val) != c[2]:
                    ok = False
                    break
            if ok:
                outs.add(classify(v))
        return outs

    def wrapper_of(v):
        m = re.match(r"^\s*pub \{\}: (Vec<|Option<)?", v.skeleton())
        if m.group(1) is None and len(v.holes()) == 2 and v.holes()[1][0][0] in ("ifelse", "match", "call"):
            return "?"  # the type text is computed by something the grammar could not open
        return {"Vec<": "Vec", "Option<": "Option", None: "bare"}[m.group(1)]

    def attr_flag_of(v):
        return "attribute = true" in v.skeleton() or any("attribute = true" in og.nf_str(h[0]) for h in v.holes())
    self_ = ("param", "self")
    n_rows = 0
    bad = {}
    for (fn, site, ctx, fields, base) in sites:
        label = "any" if og.nf_str(fields.get("is_any", ("lit", False))) == "True" else (
            "ref" if og.ctx_says_present(ctx, "'ref'") else "named")
        if label == "ref" and any("starts_with" in og.nf_str(c[1]) and c[2] for c in ctx if c[0] == "alt"):
            label = "xml-ref"
        flags = {k: CE.expand(fields[k]) for k in ("is_vec", "is_optional", "is_attribute") if k in fields}
        # helpers that decide with a general `match` (a parsed value against its variants) are taken in as well: they are evaluated
        flags = {k: CEM.expand(v) for k, v in flags.items()}
        model_mode = False
        if len(flags) != 3:
            # the occurrence is kept in another shape (an enum for the cardinality, one for the kind): every member of the model that is
            # not a name, a type or a namespace is part of it; the emitter's decisions are evaluated on those values
            others = {k: CEM.expand(CE.expand(v)) for k, v in fields.items() if k not in NOT_OCCURRENCE}
            if not others:
                ck.undecided("R2", f"{label}:flags", site, "constructor site without explicit occurrence flags")
                continue
            flags = others
            model_mode = True
        # how often a member occurs is said by minOccurs / maxOccurs / use (and by what it stands in) and by nothing else: the table
        # below varies those; a flag that also reads another attribute (nillable, default, form ..) is outside it
        for k_, v_ in sorted(flags.items()):
            for an in sorted(_attribute_names(v_) - OCCURRENCE_VOCABULARY):
                n_foreign += 1
                ck.violation("R2", f"{label}:{k_}-depends-on:{an}", site,
                             f"`{k_}` of a {label} member depends on the attribute `{an}`, which says nothing about how often the member occurs: "
                             f"a required member (minOccurs >= 1) is typed Option / Vec or an optional one bare, depending on `{an}`", fn="Field::try_from_node")
        tags = ["any"] if label == "any" else ["element", "attribute"]
        for tag in tags:
            for a in fde.product({"min": MIN, "max": MAX, "use": USE, "pmin": MIN, "pmax": MAX, "ptag": PTAG}):
                if tag == "attribute" and (a["min"], a["max"], a["pmin"], a["pmax"]) != (None, None, None, None):
                    continue  # occurrence attributes do not apply to attributes
                if tag != "attribute" and a["use"] is not None:
                    continue
                if tag == "attribute" and a["ptag"] in ("sequence", "choice", "all"):
                    continue
                if a["ptag"] in ("complexType", "extension") and (a["pmin"], a["pmax"]) != (None, None):
                    continue  # complexType / extension carry no occurrence attributes
                n_rows += 1
                parent = fde.Node(a["ptag"], {"minOccurs": a["pmin"], "maxOccurs": a["pmax"]}, name="parent")
                node = fde.Node(tag, {"minOccurs": a["min"], "maxOccurs": a["max"], "use": a["use"], "ref": "p:X" if "ref" in label else None,
                                      "name": "n"}, parent=parent)
                ev = fde.Evaluator({("param", "node"): node})
                try:
                    fv = {k: ev.ev(v) for k, v in flags.items()}
                    b2_ = {("field", self_, k_): v_ for k_, v_ in fv.items()}
                    b2_[("field", self_, "rust_type")] = "T"
                    ev2 = fde.Evaluator(b2_)
                    ws = select(member_vars, ev2, wrapper_of)
                    ats = select(attr_vars, ev2, attr_flag_of)
                except fde.Undecided as u:
                    ck.undecided("R2", f"{label}:undecided", site, f"flag expression outside the evaluator's subset: {u}")
                    return
                if len(ws) != 1 or len(ats) != 1 or "?" in ws:
                    ck.undecided("R2", f"{label}:emitter-ambiguous", member_vars[0].site,
                                 f"for one assignment of the occurrence flags the field emitter can write {sorted(ws)} / attribute flag {sorted(ats)}: "
                                 f"the member template is not a function of (is_vec, is_optional, is_attribute)")
                    return
                got = list(ws)[0]
                got_attr = list(ats)[0]
                if label == "any":
                    want, want_attr = "Option", False   # xs:any is carried as an optional string body
                else:
                    want, want_attr = oracle(tag, a)
                if (got, got_attr) != (want, want_attr):
                    # group by cause
                    if got_attr != want_attr:
                        cause = "attribute-flag"
                    elif want == "Vec":
                        which = "own" if repeats(a["max"]) else "parent"
                        v = a["max"] if which == "own" else a["pmax"]
                        cause = f"{which}-maxOccurs-{'unbounded' if v == 'unbounded' else 'integer>1'}-not-Vec"
                    elif want == "Option":
                        cause = ("choice-branch" if a["ptag"] == "choice" and a["min"] != "0" and a["pmin"] != "0" else
                                 "minOccurs=0" if tag != "attribute" else "use-not-required") + "-not-Option"
                    else:
                        cause = f"required-member-emitted-{got}"
                    bad.setdefault((label, cause), []).append((tag, dict(a), got, want))
    ck.count("R2:truth-table rows", n_rows)
    # what was decided where the member was read is final: no occurrence flag of an existing Field is written afterwards (the table
    # above is about the constructor sites; a later `field.is_optional = ..` would make it say nothing)
    flag_writes = [h for h in scans.struct_value_writers(F.lib, "model::field::Field", ["is_optional", "is_vec", "is_attribute", "is_choice", "rust_type"])
                   if "yaserde_tests" not in h[0] and "::tests::" not in h[0]]
    for (fn_, site_, fld_, how_) in flag_writes:
        ck.violation("R2", f"flags-rewritten:{fld_}", site_,
                     f"{fn_.rsplit('::', 1)[-1]} changes `{fld_}` of a member after it was read from its declaration ({how_}): the member's "
                     f"Option / Vec / bare shape is no longer the one the occurrence attributes of the schema give it")
    if not flag_writes:
        ck.ok("R2", "flags-final", "-", "no occurrence flag of an existing Field value is written after construction")
    for (label, cause), rows in sorted(bad.items()):
        tag, a, got, want = rows[0]
        ck.violation("R2", f"{label}:{cause}", [s for s in sites][0][1],
                     f"{label} members: {len(rows)} row(s) of the occurrence table disagree with the schema semantics, e.g. <{tag} "
                     + " ".join(f"{k}={v}" for k, v in a.items() if v is not None) + f"> is emitted as {got}, expected {want}", fn="Field::try_from_node")
    if not bad:
        ck.ok("R2", "truth-table", sites[0][1], f"all {n_rows} rows of the occurrence table agree with the oracle", fn="Field::try_from_node")


# ---- R3 ---------------------------------------------------------------------------------------------

def rule_traversal(ck, F, X):
    n_loops = 0
    roles = A.complex_readers(F)
    for b in F.lib.bodies:
        if b["path"] not in roles or b.get("hir") is None:
            continue
        short = roles[b["path"]]     # keyed by the role the function plays, not by its name
        nb = Hh.norm_body(b)
        nfz = og.NF(F)
        for x in Hh.exprs(nb["value"]):
            if x.get("k") == "For":
                it = Hh.describe(x["iter"])
                if "children" not in it and "children" not in _iter_source(nb, x):
                    continue
                n_loops += 1
                src = _iter_source(nb, x)
                bad_ad = [a for a in BAD_ITER_ADAPTERS if f".{a}(" in src]
                if bad_ad:
                    ck.violation("R3", f"{short}:adapter:{bad_ad[0]}", Hh.sp(x), f"{short}: the child loop iterates `{src[:80]}`: children are skipped or reordered", fn=short)
                exits = []
                _find_exits(x["body"], exits, in_closure=False)
                for kind, node in exits:
                    ck.violation("R3", f"{short}:{kind}", Hh.sp(node),
                                 f"{short}: `{kind}` inside the loop over child elements: the remaining children (declared members) are dropped", fn=short)
                if not exits and not bad_ad:
                    ck.ok("R3", f"{short}:loop#{n_loops}", Hh.sp(x), f"{short}: loop over `{src[:60]}` exits only on exhaustion or `?`", fn=short)
            if x.get("k") == "MethodCall" and x["name"] in REORDERING and "children" in Hh.describe(x["recv"]):
                ck.violation("R3", f"{short}:reorder:{x['name']}", Hh.sp(x),
                             f"{short}: the child elements are regrouped with `{x['name']}` before they are turned into members: members no longer "
                             f"follow the declaration order of the schema", fn=short)
            if x.get("k") == "MethodCall" and x["name"] in BAD_VEC_OPS:
                rty = (Hh.strip(x["recv"]).get("adj_ty") or Hh.strip(x["recv"]).get("ty") or "")
                if x["name"] == "clear" and _clear_then_refill(nb, x):
                    continue   # `v.clear(); v.extend(base.fields.iter().cloned())` is `v.clone_from(&base.fields)`
                if "Vec<model::field::Field>" in rty:
                    ck.violation("R3", f"{short}:vec-op:{x['name']}", Hh.sp(x), f"{short}: the field list is modified with `{x['name']}`: declaration order/content is not preserved", fn=short)
    # the member list of a converted type is not rearranged afterwards either, wherever that would be done (the conversion of the
    # enclosing node, the merge of documents, the writer): any function of the library outside the readers above
    for b in F.lib.bodies:
        if b["path"] in roles or b.get("hir") is None or "yaserde_tests" in b["path"] or "::tests::" in b["path"] or "helpers_content" in b["path"]:
            continue
        try:
            nb = Hh.norm_body(b)
        except og.Unrecognised:
            continue
        for x in Hh.exprs(nb["value"]):
            if x.get("k") == "MethodCall" and x["name"] in BAD_VEC_OPS:
                r0 = Hh.strip(x["recv"])
                rty = (r0.get("adj_ty") or "") + " " + (r0.get("ty") or "")
                if "Vec<model::field::Field>" in rty or "[model::field::Field]" in rty:
                    if x["name"] == "clear" and _clear_then_refill(nb, x):
                        continue
                    short = b["path"].rsplit("::", 1)[-1] if not b["path"].startswith("<") else b["path"].split(" as ")[0].rsplit("::", 1)[-1] + "::" + b["path"].rsplit("::", 1)[-1]
                    ck.violation("R3", f"elsewhere:vec-op:{x['name']}", Hh.sp(x),
                                 f"{short}: a list of members (Vec<Field>) is modified with `{x['name']}` after it was read: the declaration order / content "
                                 f"of the schema is not preserved", fn=short)
    ck.floor("R3", "child loops in the flattening functions", n_loops, 2)


def _iter_source(nb, for_node):
    """Source-like text of the iterated expression, with a local resolved through its `let`."""
    it = Hh.strip(for_node["iter"])
    d = Hh.describe(it)
    if it.get("k") == "Path" and it.get("res") == "local":
        for x in Hh.walk(nb["value"]):
            if x.get("k") == "Let" and x["pat"].get("k") == "Binding" and x["pat"]["id"] == it["id"] and x.get("init"):
                return Hh.describe(x["init"])
            if x.get("k") == "Let" and x.get("init") and x["pat"].get("k") != "Binding" and any(i_ == it["id"] for i_, _n in Hh.pat_bindings(x["pat"])):
                return Hh.describe(x["init"])     # `let (a, b) = children().partition(..)`
    return d


def _find_exits(e, out, in_closure):
    e = Hh.strip(e) if isinstance(e, dict) else e
    if isinstance(e, list):
        for x in e:
            _find_exits(x, out, in_closure)
        return
    if not isinstance(e, dict):
        return
    k = e.get("k")
    if k == "Ret" and not in_closure:
        v = Hh.strip(e["e"]) if e.get("e") else None
        is_err = v is not None and v.get("k") == "Call" and (Hh.strip(v["f"]).get("path") or "").endswith("Err")
        if not is_err:
            out.append(("return", e))
        return
    if k == "Break":
        out.append(("break", e))
        return
    if k in ("For", "Loop"):
        # a nested loop's own break/continue is its business; a `return` inside still leaves the outer loop
        inner = []
        _find_exits(e.get("body"), inner, in_closure)
        out += [x for x in inner if x[0] == "return"]
        return
    if k == "Closure":
        return
    if k == "Try":
        _find_exits(e["e"], out, in_closure)
        return
    for key, v in e.items():
        if key in ("into_iter", "pat"):
            continue
        if isinstance(v, (dict, list)):
            _find_exits(v, out, in_closure)


# ---- R4 ---------------------------------------------------------------------------------------------

REQUIRED_DISPATCH = {     # role (rules/anchors.complex_readers) -> child tags that must be dispatched on
    "complexType": ({"sequence", "complexContent", "attribute"}, "complexType"),
    "extension": ({"sequence", "attribute"}, "extension"),
    "sequence": ({"choice", "sequence"}, "sequence/choice"),
}


POSITIONAL_PICKS = ("roxmltree::Node::<'a, 'input>::first_element_child", "roxmltree::Node::<'a, 'input>::last_element_child",
                    "roxmltree::Node::<'a, 'input>::first_child", "roxmltree::Node::<'a, 'input>::last_child",
                    "roxmltree::Node::<'a, 'input>::next_sibling_element", "roxmltree::Node::<'a, 'input>::prev_sibling_element",
                    "roxmltree::Node::<'a, 'input>::next_sibling", "roxmltree::Node::<'a, 'input>::prev_sibling")


def rule_children_by_name(ck, F):
    """The content model of XSD components allows optional children before and after the one a reader looks for (`annotation` in
    front; `unique` / `key` / `keyref` after the type of an element; `attribute`s after a `sequence`). A reader that takes a child by
    its position — the first or last element child, a sibling — takes the wrong one, or none, for schemas that use those options,
    and the declared type or member is silently dropped. Zero-count scan over the resolved calls of the library (not the tests)."""
    from engine.rulekit import mir as M
    n_bodies = 0
    hits = []
    for b in scans.bodies(F.lib):
        if "yaserde_tests" in b["path"] or "::tests::" in b["path"] or "helpers_content" in b["path"]:
            continue
        n_bodies += 1
        B = M.Body(b)
        for bb, t in B.calls():
            d = M.Body.callee_decl(t) or ""
            if d in POSITIONAL_PICKS:
                hits.append((b["path"], B.term(bb).get("sp"), d))
    ck.count("R4:bodies scanned for positional child selection", n_bodies)
    for fn, site, d in hits:
        short = fn.rsplit("::", 1)[-1] if not fn.startswith("<") else fn.split(" as ")[0].rsplit("::", 1)[-1] + "::" + fn.rsplit("::", 1)[-1]
        ck.violation("R4", f"child-by-position:{short}:{d.rsplit('::', 1)[-1]}", site,
                     f"{short} takes a child by its position (`{d.rsplit('::', 1)[-1]}`): where the schema has an optional child in that place "
                     f"(an annotation in front, identity constraints or attributes behind) another child is taken, or none, and the declared "
                     f"component is dropped", fn=short)
    if not hits:
        ck.ok("R4", "children-by-name", "-", f"no reader selects a child by position ({n_bodies} bodies)")


REGISTRY_POSITIONAL = ("[T]>::get", "[T]>::get_mut", "[T]>::get_unchecked", "ops::Index::index", "ops::IndexMut::index_mut", "Iterator::nth", "[T]>::first",
                       "[T]>::last", "Vec::<T, A>::swap_remove", "Vec::<T, A>::remove", "[T]>::split_at", "Iterator::skip", "[T]>::binary_search_by_key",
                       "[T]>::binary_search_by", "[T]>::binary_search")


def rule_components_by_name(ck, F, rule="R5"):
    """A reference names the component it means; the list of components is searched for that name. A component taken from the list by
    its *position* — through a side table of positions, an index remembered from another document — is whatever stands there: after
    two documents were merged the positions of the second one are off by the length of the first, and a reference binds to an
    unrelated component without any error. Zero-count scan: no function of the library takes an element of a `Vec<Rc<RustNode>>` by
    position."""
    from engine.rulekit import mir as M
    hits = []
    n = 0
    for b in scans.bodies(F.lib):
        if "yaserde_tests" in b["path"] or "::tests::" in b["path"] or "helpers_content" in b["path"]:
            continue
        n += 1
        B = M.Body(b)
        for bb, t in B.calls():
            d = M.Body.callee_decl(t) or ""
            if not d.endswith(REGISTRY_POSITIONAL) or not t.get("args"):
                continue
            a0 = t["args"][0]
            tys = " ".join(str(B.local_ty(o.local)) for o in M.trace(B, a0) if o.kind == "arg") + " " + (str(B.local_ty(a0["p"]["l"])) if a0.get("k") in ("copy", "move") else "")
            if re.search(r"(Vec<|\[)\s*(std::rc::Rc<|std::sync::Arc<|std::boxed::Box<)?[\w:]*RustNode\b", tys):
                hits.append((b["path"], t.get("sp"), d))
    for fn, site, d in hits:
        short = fn.split("::{closure", 1)[0].rsplit("::", 1)[-1]
        ck.violation(rule, f"component-by-position:{short}:{d.rsplit('::', 1)[-1]}", site,
                     f"{fn} takes a component out of the list of components by its position (`{d.rsplit('::', 1)[-1]}`), not by its name: positions "
                     f"remembered before two documents were merged (or from another document) point at unrelated components afterwards", fn=fn)
    if not hits:
        ck.ok(rule, "components-by-name", "-", f"no function takes a component from the list of components by position ({n} bodies)")


def rule_dispatch(ck, F, X):
    rule_children_by_name(ck, F)
    roles = A.complex_readers(F)
    for role_ in REQUIRED_DISPATCH:
        if A.role_path(roles, role_) is None:
            ck.undecided("R4", f"{role_}:anchor", "-", f"no function could be attributed the role `{role_}` among the readers of complex content")
    for b in F.lib.bodies:
        if b["path"] not in roles or b.get("hir") is None:
            continue
        short = roles[b["path"]]
        if short not in REQUIRED_DISPATCH:
            continue
        need, what = REQUIRED_DISPATCH[short]
        # the child tags under which something is done inside an iteration over children(): conditions of loops, iterator filters,
        # `if`, `match` alike (not the `find(.. == "extension")` that locates the container itself: that is no iteration context)
        tags = set()
        W = og.EnvWalker(F)
        CE_ = og.CallExpander(F)

        def cb(e, env, ctx, tags=tags):
            if e.get("k") not in ("Call", "MethodCall"):
                return
            stars = [c for c in ctx if c[0] == "star"]
            over_children = any(isinstance(st[1], tuple) and st[1][0] == "call" and str(st[1][1]).rsplit("::", 1)[-1] == "children" for st in stars)
            if not stars:
                return
            for c in ctx:
                if c[0] != "alt" or c[2] is not True:
                    continue
                cond = CE_.expand(c[1])     # `has_tag(n, "sequence")` is the comparison it makes
                cs = og.nf_str(cond)
                if "tag_name" not in cs:
                    continue
                # .. inside an iteration over children(), or — a walk with a work list of its own — on a node drawn from an iterator
                # (`stack.last_mut()?.find(Node::is_element)`) inside a loop
                if not over_children and not re.search(r"tag_name\((Some⟨)?(find|next|next_back|pop|find_map)\(", cs):
                    continue
                if cond[0] == "islet":
                    for lit in re.findall(r"'([^']*)'", cond[1]):
                        tags.add(lit)
                else:
                    for sub in _eq_literals(cond):
                        tags.add(sub)
        try:
            W.walk_fn(b["path"], cb)
        except og.Unrecognised:
            pass
        missing = need - tags
        for m in sorted(missing):
            ck.violation("R4", f"{short}:{m}", b["span"],
                         f"{short} ({what} content): child `{m}` is not dispatched on: such children are silently ignored or mis-read", fn=short)
        if not missing:
            ck.ok("R4", f"{short}:dispatch", b["span"], f"{short} handles {sorted(tags)} ⊇ {sorted(need)}", fn=short)


def _clear_then_refill(nb, clear_call):
    """the `clear()` is directly followed, in the same block, by an `extend` / `extend_from_slice` / `clone_from` on the same vector"""
    recv = Hh.describe(clear_call["recv"])
    for blk in Hh.exprs(nb["value"]):
        if blk.get("k") != "Block":
            continue
        stmts = [Hh.strip(st["e"]) for st in blk["b"]["stmts"] if st.get("k") in ("Semi", "Expr")] + ([Hh.strip(blk["b"]["tail"])] if blk["b"].get("tail") else [])
        for i, st in enumerate(stmts):
            if st is clear_call or (st.get("hid") is not None and st.get("hid") == clear_call.get("hid")):
                nxt = stmts[i + 1] if i + 1 < len(stmts) else None
                return bool(nxt) and nxt.get("k") == "MethodCall" and nxt["name"] in ("extend", "extend_from_slice", "clone_from", "append") \
                    and Hh.describe(nxt["recv"]) == recv
    return False


def _eq_literals(cond):
    """string literals that a (conjunction of) equality tests compares something with"""
    out = []
    if isinstance(cond, tuple):
        if cond[0] == "binop" and cond[1] == "And":
            out += _eq_literals(cond[2]) + _eq_literals(cond[3])
        elif cond[0] == "binop" and cond[1] == "Eq":
            for side, other in ((cond[2], cond[3]), (cond[3], cond[2])):
                if isinstance(side, tuple) and side[0] == "lit" and isinstance(side[1], str) and "tag_name" in og.nf_str(other):
                    out.append(side[1])
    return out


def _resolve_local(nb, e):
    e = Hh.strip(e)
    if e.get("k") == "Path" and e.get("res") == "local":
        for x in Hh.walk(nb["value"]):
            if x.get("k") == "Let" and x["pat"].get("k") == "Binding" and x["pat"]["id"] == e["id"] and x.get("init"):
                return Hh.describe(x["init"])
    return ""


# ---- R5 ---------------------------------------------------------------------------------------------

def _ns_condition(cond, branch, elem, ctx):
    """'eq-target-namespace' | 'no-namespace' | 'other' for a condition over <elem>.in_namespace taken on `branch`"""
    ns_field = ("field", elem, "in_namespace")
    c = cond
    while c[0] == "not":
        c, branch = c[1], not branch
    if c[0] == "binop" and c[1] in ("Eq", "Ne"):
        if c[1] == "Ne":
            branch = not branch
        sides = [c[2], c[3]]
        mine = [x for x in sides if _strip_opt(x) == ns_field]
        other = [x for x in sides if _strip_opt(x) != ns_field]
        if len(mine) == 1 and len(other) == 1 and branch:
            o = _strip_opt(other[0])
            if o[0] == "call" and o[1] == "Some" and len(o[2]) == 1:
                o = o[2][0]
                tn_stars = [s for s in ctx if s[0] == "star" and og.nf_str(s[1]) == "self.target_namespaces"]
                if tn_stars and _strip_opt(o) == ("elem", tn_stars[0][1]):
                    return "eq-target-namespace"
            if og.nf_str(o) == "None":
                return "no-namespace"
        return "other"
    if c[0] == "call" and str(c[1]).rsplit("::", 1)[-1] in ("is_none", "is_some") and c[2] and _strip_opt(c[2][0]) == ns_field:
        is_none = str(c[1]).endswith("is_none")
        return "no-namespace" if is_none == branch else "other"
    if c[0] == "islet" and _strip_opt(c[2]) == ns_field:
        lab = c[1].rsplit("::", 1)[-1]
        if (lab == "None") == branch and lab in ("None",):
            return "no-namespace"
        if lab.startswith("Some(") and not branch:
            return "no-namespace"
    return "other"


def _strip_opt(n):
    """look through as_ref / as_deref / clone / borrow wrappers"""
    while isinstance(n, tuple) and n[0] == "call" and str(n[1]).rsplit("::", 1)[-1] in ("as_ref", "as_deref", "clone", "borrow", "deref") and len(n[2]) == 1:
        n = n[2][0]
    return n


def rule_emission(ck, F, X):
    # calls of the node writer anywhere under the document writer (private helper methods inlined, the node writer itself is the anchor)
    node_calls = []
    for ev in T.inline(X, T.ROOT):
        if ev.kind == "call" and "node::RustNode" in ev.callee and not any("node::RustNode" in c for c in ev.chain):
            node_calls.append(ev)
    # each emission site: which nodes of self.nodes it visits, read off the loop context (loops, filters, if/continue alike)
    kinds = []
    for ev in node_calls:
        elem = ev.args[0]
        over_nodes = any(c[0] == "star" and og.nf_str(c[1]) == "self.nodes" for c in ev.ctx) and elem == ("elem", ("field", ("param", "self"), "nodes"))
        conds = [(c[1], c[2]) for c in ev.ctx if c[0] == "alt" and "in_namespace" in og.nf_str(c[1])]
        others = [c for c in ev.ctx if c[0] == "alt" and "in_namespace" not in og.nf_str(c[1])
                  and og.nf_str(elem) in og.nf_str(c[1])]
        kind = "other"
        if over_nodes and len(conds) == 1 and not others:
            kind = _ns_condition(conds[0][0], conds[0][1], elem, ev.ctx)
        kinds.append(kind)
    if sorted(kinds) == ["eq-target-namespace", "no-namespace"]:
        ck.ok("R5", "two-partitioning-loops", node_calls[0].site, "nodes are emitted by `in_namespace == Some(ns)` per target namespace and by `in_namespace.is_none()`")
    else:
        ck.violation("R5", "two-partitioning-loops", node_calls[0].site if node_calls else "-",
                     f"node emission sites select {kinds} of self.nodes ({[T.ctx_str(ev.ctx)[:120] for ev in node_calls]}); expected exactly the "
                     f"per-target-namespace selection and the no-namespace selection (a node could be emitted twice or never)")
    for ev in node_calls:
        inner = [c for c in ev.ctx if c[0] == "star"]
        if ev.propagated not in ("try", "closure-try", "tail", "returned"):
            ck.violation("R5", "node-write-propagated", ev.site, f"node emission result not propagated ({ev.propagated})")
    # every RustNode gets in_namespace = doc.current_target_namespace
    sums = [s for s in og.field_summaries(F, "node::RustNode") if "Clone" not in s[0]]
    for (fn, site, ctx, fields, base) in sums:
        v = og.nf_str(fields.get("in_namespace", ("unknown", "?")))
        if v == "doc.current_target_namespace":
            ck.ok("R5", "node-namespace", site, "RustNode.in_namespace = doc.current_target_namespace")
        else:
            ck.violation("R5", "node-namespace", site, f"RustNode.in_namespace = {v}: the node may match neither emission loop")
    # the schema reader pushes every converted child once: the functions (reachable from the public API) that push onto the
    # document's `nodes` are found by that push, not by name
    live = scans.api_reachable(F.lib)
    appenders = node_appenders(F)
    holders = []
    for b in F.lib.bodies:
        if b.get("hir") is None or b.get("closure") or b["path"] not in live or "tests::" in b["path"] or "yaserde_tests" in b["path"]:
            continue
        nb = Hh.norm_body(b)
        if b["path"] in appenders:
            continue
        pushes = [x for x in Hh.exprs(nb["value"]) if _pushes_component(x) or (x.get("k") in ("Call", "MethodCall") and (Hh.callee_path(x) or "") in appenders)]
        if pushes and _converts_components(F, nb):
            holders.append((b, nb, pushes))
    if not holders:
        ck.undecided("R5", "schema-reader", "-", "no function pushing converted components onto RustDocument.nodes was found")
        return
    for b, nb, pushes in holders:
        short = b["path"].rsplit("::", 1)[-1]
        loops = [x for x in Hh.exprs(nb["value"]) if x.get("k") == "For"]
        exits = []
        for lp in loops:
            _find_exits(lp["body"], exits, False)
        # the same walk written as internal iteration: `children().try_for_each(|child| ..)` (the closure's `return` ends a round, an
        # `Err` ends the walk with that error, as `?` does in a loop)
        inner = [x for x in Hh.exprs(nb["value"]) if x.get("k") == "MethodCall" and x["name"] in ("for_each", "try_for_each") and x["args"]
                 and Hh.strip(x["args"][0]).get("k") == "Closure" and "children" in Hh.describe(x["recv"])
                 and not any(f".{a}(" in Hh.describe(x["recv"]) for a in ("take", "take_while", "map_while", "skip", "skip_while", "step_by", "rev"))]
        if len(pushes) == 1 and not loops and len(inner) == 1 and any(p_ is y for p_ in pushes for y in Hh.exprs(inner[0]["args"][0])):
            ck.ok("R5", "read_xsd-push-once", Hh.sp(pushes[0]), f"{short}: one push per successfully converted child, the walk over the children runs to exhaustion")
            continue
        if len(pushes) == 1 and len(loops) == 1 and not exits and "children" in Hh.describe(loops[0]["iter"]):
            ck.ok("R5", "read_xsd-push-once", Hh.sp(pushes[0]), f"{short}: one push per successfully converted child, loop runs to exhaustion")
        else:
            ck.violation("R5", "read_xsd-push-once", b["span"], f"{short}: {len(pushes)} pushes in {len(loops)} loops, early exits: {[e[0] for e in exits]}")


SINGLE_PICK = ("find", "iter::find", "next", "nth", "last", "next_back", "find_map", "iter::find_map", "min_by_key", "max_by_key", "first", "position")


def _pushes_component(x):
    return (x.get("k") == "MethodCall" and x["name"] in ("push", "extend") and Hh.describe(x["recv"]).endswith("nodes")
            and "RustNode" in ((Hh.strip(x["recv"]).get("adj_ty") or "") + (Hh.strip(x["recv"]).get("ty") or "")))


def node_appenders(F):
    """methods that append the component they are handed to the list of components (`doc.push_node(node)`): a call of one is the
    push it makes (exactly one push of a parameter, outside any loop or closure)"""
    out = set()
    for b in F.lib.bodies:
        if b.get("hir") is None or b.get("closure") or "tests::" in b["path"] or "yaserde_tests" in b["path"]:
            continue
        nb = Hh.norm_body(b)
        params = {i_ for p_ in nb.get("params", []) for i_, _n in Hh.pat_bindings(p_)}
        ps = [x for x in Hh.exprs(nb["value"]) if _pushes_component(x) and x["args"]]
        if len(ps) != 1 or any(x.get("k") in ("For", "While", "Loop", "Closure") for x in Hh.exprs(nb["value"])):
            continue
        a0 = Hh.strip(ps[0]["args"][0])
        if a0.get("k") == "Path" and a0.get("res") == "local" and a0.get("id") in params:
            out.add(b["path"])
    return out


def schema_readers(F):
    """the functions (reachable from the public API) that push converted components onto a document's `nodes`: the readers of one
    `schema` element"""
    live = scans.api_reachable(F.lib)
    out = []

    pushes = _pushes_component
    appenders = node_appenders(F)
    for b in F.lib.bodies:
        if b.get("hir") is None or b.get("closure") or b["path"] not in live or "tests::" in b["path"] or "yaserde_tests" in b["path"] or b["path"] in appenders:
            continue
        nb = Hh.norm_body(b)
        if any(pushes(x) or (x.get("k") in ("Call", "MethodCall") and (Hh.callee_path(x) or "") in appenders) for x in Hh.exprs(nb["value"])) \
                and _converts_components(F, nb):
            out.append(b["path"])
    return out


def _converts_components(F, nb):
    """does the function call a component converter (Node, &mut RustDocument) -> Result<RustNode, _>? (what it appends to `nodes` is
    what it converted; the merge of two documents appends as well, but converts nothing)"""
    from rules import c10 as C10
    convs = set(C10.component_converters(F))
    return any(x.get("k") in ("Call", "MethodCall") and (Hh.callee_path(x) or "") in convs for x in Hh.exprs(nb["value"]))


def _hands_own_node_through_table(F, readers):
    """functions that call, through a function pointer looked up in a table of the crate, one of `readers` with their own XML node
    parameter"""
    from engine.rulekit import inline as I
    from engine.rulekit import mir as M
    out = []
    inl = I.Inliner(F.lib)
    for b in scans.bodies(F.lib):
        if b.get("closure") or "tests::" in b["path"] or "yaserde_tests" in b["path"]:
            continue
        B = M.Body(b)
        for bb, t in B.calls():
            f = t.get("func") or {}
            if f.get("k") not in ("copy", "move"):
                continue
            srcs = inl._tables_behind(B, f)
            if not srcs:
                continue
            entries = {}
            for kind, p in srcs:
                if kind == "const":
                    entries.update(inl._table_entries(p))
                else:
                    entries[p] = kind
            if not (set(entries) & set(readers)):
                continue
            for a in t.get("args", []):
                os_ = M.trace(B, a, ())
                if os_ and all(o.kind == "arg" and "roxmltree::Node<" in B.local_ty(o.local) and not o.fields() for o in os_):
                    out.append(b["path"])
    return out


def schema_reader_calls(F):
    """[(caller, call node, normal form of the XML node handed over, context)] for every call of a schema reader (and of a function
    that hands its own node parameter on to one) outside the readers themselves"""
    readers = set(schema_readers(F))
    # functions that pass their own node parameter to a reader are readers of that node as well (`read(node)` -> `read_xsd(node)`)
    W = og.EnvWalker(F)
    sites = []
    for _ in range(3):
        grew = False
        sites = []
        for b in F.lib.bodies:
            if b.get("hir") is None or b.get("closure") or "tests::" in b["path"] or "yaserde_tests" in b["path"]:
                continue

            def cb(e, env, ctx, caller=b["path"]):
                if e.get("k") not in ("Call", "MethodCall") or Hh.callee_path(e) not in readers:
                    return
                args = ([e["recv"]] if e.get("k") == "MethodCall" else []) + list(e["args"])
                for a in args:
                    a0 = Hh.strip(a)
                    if "roxmltree::Node<" in (a0.get("ty") or "") + (a0.get("adj_ty") or ""):
                        sites.append((caller, e, W.NF.nf(a, env), ctx))
                        break
            try:
                W.walk_fn(b["path"], cb)
            except og.Unrecognised:
                continue
        for caller, e, nf, ctx in sites:
            if caller not in readers and isinstance(nf, tuple) and nf[0] == "param":
                readers.add(caller)
                grew = True
        # .. also through a table of readers (`reader_for(&ROOT_READERS, name)` called with the function's own node)
        for fn_ in _hands_own_node_through_table(F, readers):
            if fn_ not in readers:
                readers.add(fn_)
                grew = True
        if not grew:
            break
    return readers, [s_ for s_ in sites if s_[0] not in readers or not (isinstance(s_[2], tuple) and s_[2][0] == "param")]


def rule_every_schema_read(ck, F):
    """A WSDL `types` section holds any number of `schema` elements (one per namespace is usual): each of them is read. A reader that
    picks one child (`find`, `next`, ..) and reads only that drops every type of the other schemas. Decided at the calls of the schema
    readers: the node handed over is the caller's own node, or it ranges over the children (a loop / iterator), never a single pick."""
    CE = og.CallExpander(F)
    readers, sites = schema_reader_calls(F)
    n = 0
    for caller, e, nf, ctx in sites:
        v = CE.expand(nf)
        names, root = og.spine(v)
        short = caller.rsplit("::", 1)[-1]
        over_children = any(c[0] == "star" and "children" in og.nf_str(c[1]) for c in ctx)
        if "children" not in names and not over_children:
            continue      # not a child selection (the root element of a file, a looked-up node)
        n += 1
        picked = [x for x in names if x in SINGLE_PICK]
        if picked and not (isinstance(root, tuple) and root[0] == "elem" and over_children):
            ck.violation("R5", f"every-schema:{short}", Hh.sp(e),
                         f"{short} reads one child only (selected with `{picked[0]}`) as the schema: further `schema` elements of the same parent "
                         f"(a WSDL `types` section has one per namespace) are never read and none of their types is emitted", fn=short)
        else:
            ck.ok("R5", f"every-schema:{short}", Hh.sp(e), f"{short}: the schema reader is applied to every selected child", fn=short)
    ck.count("R5:schema reader calls on child elements", n)
    ck.floor("R5", "schema readers", len(readers), 1)


def rule_merge_keeps_components(ck, F):
    """When an imported document is merged into the importing one, every component it holds is kept: each component collection of
    the incoming document (`nodes`, the WSDL collections) is appended as a whole to the same collection of the receiver. A merge
    that filters, de-duplicates by a partial key or takes only some elements drops declared types."""
    from engine.rulekit import mir as M
    st = next((x for x in F.lib.items["structs"] if x["path"] == "model::doc::RustDocument"), None)
    merges = [f for f in A._fn_items(F) if [A._norm_ty(x) for x in f["inputs"]] == ["&mutmodel::doc::RustDocument", "model::doc::RustDocument"]]
    if st is None or len(merges) != 1:
        ck.undecided("R5", "merge", "-", f"the merge function `fn(&mut RustDocument, RustDocument)` could not be attributed uniquely ({[m['path'] for m in merges]})")
        return
    comp_fields = [f["name"] for f in st["variants"][0]["fields"] if "Vec<" in f["ty"] and ("RustNode" in f["ty"] or "model::soap::" in f["ty"])]
    primary = {f["name"] for f in st["variants"][0]["fields"] if A._norm_ty(f["ty"]).startswith("std::vec::Vec<")}
    b = F.lib.body(merges[0]["path"])
    B = M.Body(b)
    short = merges[0]["path"].rsplit("::", 1)[-1]
    whole = ("Vec::<T, A>::extend", "iter::Extend::extend", "Vec::<T, A>::append", "Vec::<T, A>::extend_from_slice")
    # .. or one by one: a loop over the incoming list, every element of which is pushed onto the receiver's (through a method of the
    # document that keeps an index of the list in step, for instance); what is written in such a loop besides is kept in step with it
    from engine.rulekit import inline as I
    IB = I.inlined_body(F.lib, merges[0]["path"])
    one_by_one = {}
    if IB is not None:
        for bb, t in IB.calls():
            if not (M.Body.callee_decl(t) or "").endswith("Iterator::next") or t.get("target") is None:
                continue
            src = M.trace(IB, t["args"][0], M.IDENTITY_CALLS + ("IntoIterator::into_iter",))
            if not (src and all(o.kind == "arg" and o.local == 2 and len(o.fields()) == 1 for o in src)):
                continue
            from_fld = src[0].fields()[0]
            cyc = {x for x in IB.reachable_from(t["target"]) if bb in IB.reachable_from(x)} | {bb}
            pushes, written = [], set()
            for x in cyc:
                tx = IB.term(x)
                if tx.get("k") != "call" or not tx.get("args"):
                    continue
                dx = M.Body.callee_decl(tx) or ""
                recv = M.trace(IB, tx["args"][0], M.IDENTITY_CALLS + ("HashMap::<K, V, S>::entry", "Entry::<'a, K, V>::or_default", "Entry::<'a, K, V>::or_insert_with",
                                                               "BTreeMap::<K, V, A>::entry", "Entry::<'a, K, V, A>::or_default"))
                for o in recv:
                    if o.kind == "arg" and o.local == 1 and o.fields() and dx.endswith(scans.MUTATING):
                        written.add(o.fields()[0])
                        if dx.endswith("Vec::<T, A>::push") and o.fields() == [from_fld] and len(tx["args"]) == 2 and \
                                any(oo.kind == "call" and oo.bb == bb for oo in M.trace(IB, tx["args"][1], M.IDENTITY_CALLS)):
                            pushes.append(x)
            # every round pushes: no way from the element back to the loop head that avoids the push
            if len(pushes) == 1 and bb not in IB.reachable_from(t["target"], avoid=[pushes[0]]) - {pushes[0]}:
                one_by_one[from_fld] = written
    for fld in comp_fields:
        ok = fld in one_by_one or (fld not in primary and any(fld in w for w in one_by_one.values()))
        for bb, t in B.calls():
            d = M.Body.callee_decl(t) or ""
            if not d.endswith(whole) or len(t["args"]) < 2:
                continue
            dst = M.trace(B, t["args"][0], ())
            src = M.trace(B, t["args"][1], M.IDENTITY_CALLS + ("IntoIterator::into_iter",))
            if dst and all(o.kind == "arg" and o.local == 1 and o.fields() == [fld] for o in dst) and \
                    src and all(o.kind == "arg" and o.local == 2 and o.fields() == [fld] for o in src):
                ok = True
        if ok:
            ck.ok("R5", f"merge-keeps:{fld}", b["span"], f"{short}: every incoming `{fld}` entry is appended to the receiver's `{fld}`")
        else:
            ck.violation("R5", f"merge-keeps:{fld}", b["span"],
                         f"{short} does not append the incoming document's `{fld}` as a whole (filtered, de-duplicated by a key, or not merged): "
                         f"components declared in an imported schema can be dropped, e.g. a type whose local name also occurs in another namespace")
    ck.floor("R5", "component collections of RustDocument", len(comp_fields), 5)


def _is_namespace_text(nf):
    """the value is the `namespace` attribute of the import itself (through `?`, `ok_or`, `as_str`, .. only)"""
    cur = nf
    for _ in range(10):
        if not isinstance(cur, tuple):
            return False
        if cur[0] == "payload":
            cur = cur[2]
        elif cur[0] == "call" and cur[2] and str(cur[1]).rsplit("::", 1)[-1] in ("ok_or", "ok_or_else", "as_str", "as_ref", "deref", "to_string", "to_owned", "clone", "expect", "unwrap", "trim"):
            cur = cur[2][0]
        else:
            break
    return isinstance(cur, tuple) and cur[0] == "call" and str(cur[1]).rsplit("::", 1)[-1] == "attribute" and len(cur[2]) == 2 and cur[2][1] == ("lit", "namespace")


def rule_imports_followed(ck, F):
    """An import is not followed (an empty document stands for it) only for a reason that is exact: its namespace *is* one of the
    constant well-known namespaces, it has no schemaLocation, or its file was read already. A test on part of the namespace text
    (prefix, suffix, substring, case-folded) skips schemas that do have definitions: their types disappear from the output."""
    empties = A.by_signature(F, [], "model::doc::RustDocument")
    if not empties:
        ck.undecided("R5", "imports-followed", "-", "no constructor of the empty document `fn() -> RustDocument` was found")
        return
    empty = set(empties)     # (`empty()` and a derived `Default::default()` are the same document)
    g = scans.call_graph(F.lib)
    live = scans.api_reachable(F.lib)
    W = og.EnvWalker(F)
    CE = og.CallExpander(F)
    inexact = ("starts_with", "ends_with", "eq_ignore_ascii_case", "to_lowercase", "to_uppercase", "to_ascii_lowercase", "to_ascii_uppercase",
               "trim", "trim_start", "trim_end", "trim_matches", "trim_end_matches", "trim_start_matches", "strip_prefix", "strip_suffix",
               "find", "rfind", "matches", "split", "split_once", "rsplit", "get", "chars", "bytes", "len", "is_empty")
    n = 0
    for b in F.lib.bodies:
        if b.get("hir") is None or b.get("closure") or b["path"] not in live or not b["path"].startswith(("reader::", "<reader::")) or "tests::" in b["path"]:
            continue
        sites = []

        def cb(e, env, ctx, sites=sites):
            if e.get("k") in ("Call", "MethodCall") and (Hh.callee_path(e) or "") in empty:
                sites.append((Hh.sp(e), ctx))
        try:
            W.walk_fn(b["path"], cb)
        except og.Unrecognised:
            continue
        short = b["path"].rsplit("::", 1)[-1]
        for site, ctx in sites:
            n += 1
            bad = []
            for c in ctx:
                if c[0] != "alt":
                    continue
                cond = CE.expand(c[1])
                for call in og.nf_calls(cond):
                    name = str(call[1]).rsplit("::", 1)[-1]
                    on_text = any(_is_namespace_text(a_) for a_ in call[2])
                    if on_text and (name in inexact or (name == "contains" and "str>" in str(call[1]))):
                        bad.append((name, og.nf_str(cond)[:140]))
            if bad:
                ck.violation("R5", f"imports-followed:{short}", site,
                             f"{short} stands an empty document in for an import on a test of part of its namespace text (`{bad[0][0]}`: {bad[0][1]}): "
                             f"schemas of other namespaces that match are not read, the types they declare are missing from the output")
            else:
                ck.ok("R5", f"imports-followed:{short}", site, f"{short}: an import is replaced by the empty document only for exact reasons (constant namespace list, no location, file read already)")
    if n == 0:
        ck.ok("R5", "imports-followed:none", "-", "no import is replaced by an empty document")


# ---- R6 ---------------------------------------------------------------------------------------------

def rule_naming(ck, F, X):
    CE = og.CallExpander(F)
    live = scans.api_reachable(F.lib)
    for (fn, site, ctx, fields, base) in og.field_summaries(F, "model::field::Field"):
        if "try_from_node" not in fn or fn not in live or "rust_name" not in fields:
            continue
        if og.nf_str(fields.get("is_any", ("lit", False))) == "True":
            continue
        ch, root = og.sanitiser_chain(CE.expand(fields["rust_name"]))
        if ch and ch[0] == "rename_keywords" and "to_snake_case" in ch:
            ck.ok("R6", "field-name", site, "Field.rust_name = rename_keywords(to_snake_case(xml name))", fn="Field::try_from_node")
        else:
            ck.violation("R6", "field-name", site, f"Field.rust_name is built with {ch}, not rename_keywords∘to_snake_case", fn="Field::try_from_node")
    for ev in X.events.get(T.FIELD_WRITER, []):
        if ev.kind == "emit" and "{}: {}" in ev.skeleton():
            if ev.skeleton().lstrip().startswith("pub {}: {}") and og.nf_str(ev.holes()[0][0]) == "self.rust_name":
                ck.ok("R6", "field-pub", ev.site, "members are emitted as `pub <rust_name>: <type>`")
            else:
                ck.violation("R6", "field-pub", ev.site, f"member template is `{ev.skeleton().strip()}` with name {og.nf_str(ev.holes()[0][0])}")
