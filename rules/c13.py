"""C13 — the library never panics, overflows or hangs, whatever the input."""
from engine.rulekit import facts as factsmod
from engine.rulekit import inline as I
from engine.rulekit import mir as M
from engine.rulekit import scans
from rules import c11 as C11

NODE_TY = "roxmltree::Node<"
DESCENT = ("roxmltree::Node::<'a, 'input>::children", "roxmltree::Node::<'a, 'input>::first_child",
           "roxmltree::Node::<'a, 'input>::last_child", "roxmltree::Node::<'a, 'input>::first_element_child",
           "roxmltree::Node::<'a, 'input>::last_element_child")
RESTART = ("roxmltree::Node::<'a, 'input>::descendants", "roxmltree::Node::<'a, 'input>::parent",
           "roxmltree::Node::<'a, 'input>::ancestors", "roxmltree::Node::<'a, 'input>::document",
           "roxmltree::Document::<'input>::root", "roxmltree::Document::<'input>::root_element",
           "roxmltree::Document::<'input>::descendants", "roxmltree::Node::<'a, 'input>::next_sibling",
           "roxmltree::Node::<'a, 'input>::prev_sibling", "roxmltree::Node::<'a, 'input>::next_siblings",
           "roxmltree::Node::<'a, 'input>::prev_siblings", "roxmltree::Node::<'a, 'input>::parent_element",
           "roxmltree::Document::<'input>::get_node")


def in_scope(fn):
    return "yaserde_tests" not in fn


def _same_slice(B, a_ops, b_ops):
    """do two operands denote the same slice: the same named constant, or the same local / parameter place?"""
    def keys(op):
        ks = set()
        for o in M.trace(B, op, M.IDENTITY_CALLS + ("str>::as_bytes", "[T]>::iter", "Vec<T, A>::as_slice", "ops::Deref::deref")):
            if o.kind == "const":
                ks.add(("const", str(o.const.get("uneval") or o.const.get("text"))))
            elif o.kind in ("arg", "upvar"):
                ks.add((o.kind, getattr(o, "local", getattr(o, "index", None)), tuple(o.fields())))
            else:
                return None
        return ks
    ka, kb = keys(a_ops), keys(b_ops)
    return bool(ka) and ka == kb


def _range_lower_bound(F, const_path):
    """lower bound of a named constant `lo..=hi` / `lo..hi` with a literal lower bound, else None"""
    b = F.lib.body(const_path) if const_path else None
    if b is None or b.get("hir") is None:
        return None
    from engine.rulekit import hir as Hh
    v = Hh.strip(Hh.norm_body(b)["value"])
    if v.get("k") == "Call" and str(Hh.callee_path(v) or "").startswith("std::ops::Range") and v["args"]:
        lo = Hh.strip(v["args"][0])
        if lo.get("k") == "Lit" and lo.get("lit") == "int":
            return lo["v"]
    return None


def guarded_bounds(F, B, bb, t):
    """Is the index of this bounds check inside the slice on every path that reaches it?
    (a) the index is what `binary_search*` on the same slice answered with `Ok(i)` (i < len by its contract);
    (b) the index is a constant c and the check is dominated by the taken arm of `RANGE.contains(&s.len())` for the same `s`, with
        RANGE a named constant whose lower bound is above c."""
    if not str(t.get("msg", "")).startswith("BoundsCheck"):
        return None
    cond = t.get("cond")
    ds = B.defs().get(cond["p"]["l"], []) if cond and cond.get("k") in ("copy", "move") else []
    if len(ds) != 1 or ds[0][0] != "assign" or ds[0][3].get("k") != "binop" or ds[0][3].get("op") != "Lt":
        return None
    idx_op, len_op = ds[0][3]["a"], ds[0][3]["b"]
    lds = B.defs().get(len_op["p"]["l"], []) if len_op.get("k") in ("copy", "move") else []
    if len(lds) != 1 or lds[0][0] != "assign" or lds[0][3].get("k") != "unop" or lds[0][3].get("op") != "PtrMetadata":
        return None
    base_op = lds[0][3]["a"]
    idx = M.trace(B, idx_op, ())
    # (a)
    if idx and all(o.kind == "call" and (M.Body.callee_decl(o.term) or "").rsplit("::", 1)[-1].startswith("binary_search")
                   and any(isinstance(p_, dict) and p_.get("downcast") == "Ok" for p_ in o.proj) for o in idx):
        if all(o.term.get("args") and _same_slice(B, o.term["args"][0], base_op) for o in idx):
            return "the index is the position a bisection of the same slice answered with"
    # (b)
    if len(idx) == 1 and idx[0].kind == "const" and isinstance(idx[0].const.get("bits"), int):
        c = idx[0].const["bits"]
        for cbb, ct in B.calls():
            if not (M.Body.callee_decl(ct) or "").endswith("RangeInclusive::<Idx>::contains") or len(ct.get("args") or []) != 2:
                continue
            rng = [o for o in M.trace(B, ct["args"][0], ())]
            lo = None
            if len(rng) == 1 and rng[0].kind == "const":
                lo = _range_lower_bound(F, str(rng[0].const.get("uneval") or ""))
            if lo is None or lo <= c:
                continue
            ns = M.trace(B, ct["args"][1], ())
            if not (ns and all(o.kind == "call" and (M.Body.callee_decl(o.term) or "").endswith(("str>::len", "[T]>::len", "String::len", "Vec::<T, A>::len"))
                               and _same_slice(B, o.term["args"][0], base_op) for o in ns)):
                continue
            sw = B.term(ct["target"]) if ct.get("target") is not None else {}
            if sw.get("k") == "switch" and [v for v, _ in sw["targets"]] == [0] and B.dominates(sw["otherwise"], bb):
                return f"the length was found inside a range that starts at {lo}"
    return None


def guarded_split_at(B, bb, t):
    """`s.split_at(i)` with i a position `s.find(..)` / `s.rfind(..)` answered with (a character boundary inside s) or, where nothing
    was found, `s.len()` — of the same s"""
    if len(t.get("args") or []) != 2:
        return None

    def position_in_s(op, depth=0):
        os_ = M.trace(B, op, ())
        if not os_ or depth > 3:
            return False
        for o in os_:
            if o.kind != "call":
                return False
            d = M.Body.callee_decl(o.term) or ""
            args = o.term.get("args") or []
            if d.endswith(("str>::find", "str>::rfind")) and any(isinstance(p_, dict) and p_.get("downcast") == "Some" for p_ in o.proj) and _same_slice(B, args[0], t["args"][0]):
                continue
            if d.endswith(("str>::find", "str>::rfind")) and not o.proj:
                continue       # the Option itself (unwrapped by the caller below)
            if d.endswith("str>::len") and _same_slice(B, args[0], t["args"][0]):
                continue
            if d.endswith(("Option::<T>::unwrap_or", "Option::<T>::unwrap_or_else")) and len(args) == 2:
                opt_ok = all(x.kind == "call" and (M.Body.callee_decl(x.term) or "").endswith(("str>::find", "str>::rfind"))
                             and _same_slice(B, x.term["args"][0], t["args"][0]) for x in M.trace(B, args[0], ())) and bool(M.trace(B, args[0], ()))
                if opt_ok and position_in_s(args[1], depth + 1):
                    continue
            return False
        return True
    return "the position was found in the same text (or is its length)" if position_in_s(t["args"][1]) else None


def guarded_unwrap(B, bb, t):
    """`x.unwrap()` dominated by the Some/Ok arm of a test on the same place (is_some()/is_ok()/discriminant)."""
    recv = M.trace(B, t["args"][0], ())
    roots = {(getattr(o, "local", None), tuple(o.fields())) for o in recv if o.kind in ("arg",)} | {
        ("call", o.bb) for o in recv if o.kind == "call"}
    if not roots:
        return False
    for i in sorted(B.reach):
        sw = B.term(i)
        if sw.get("k") != "switch":
            continue
        for o in M.trace(B, sw["discr"], ()):
            tested = None
            truth_target = None
            if o.kind == "call":
                d = M.Body.callee_decl(o.term) or ""
                if d.endswith(("Option::<T>::is_some", "Result::<T, E>::is_ok")):
                    tested = M.trace(B, o.term["args"][0], ())
                    # bool switch: [[0, F]] otherwise T
                    truth_target = sw["otherwise"] if [v for v, _ in sw["targets"]] == [0] else None
            elif o.kind == "discr":
                tested = M.trace_place(B, o.place, ())
                for v, tgt in sw["targets"]:
                    if v == 1 and "Option" in "".join(B.local_ty(o.place["l"]) for _ in [0]):
                        truth_target = tgt
            if tested is None or truth_target is None:
                continue
            troots = {(getattr(x, "local", None), tuple(x.fields())) for x in tested if x.kind == "arg"} | {
                ("call", x.bb) for x in tested if x.kind == "call"}
            if troots & roots and B.dominates(truth_target, bb):
                return True
    return False


def classify_edge(F, B, bb, t, callee_body):
    """Classify a call that stays inside a recursion by what it does to the XML node argument."""
    node_args = [a for a in t["args"] if a.get("k") in ("copy", "move") and NODE_TY in _op_ty(B, a)]
    if not node_args:
        return "no-node", "the callee receives no XML node"
    kinds = []
    for a in node_args:
        roots, via = M.slice_info(B, a)
        node_roots = [r for r in roots if r[0] == "arg" and NODE_TY in B.local_ty(r[1])]
        up_roots = [r for r in roots if r[0] == "upvar"]
        if up_roots and not node_roots and not (via & (set(RESTART) | set(DESCENT))):
            # the node is one the closure captured: what it is in the function that made the closure
            cap = _captured_in_parent(F, B, up_roots)
            if cap is not None:
                proots, pvia, PB = cap
                via = via | pvia
                node_roots = [r for r in proots if r[0] == "arg" and NODE_TY in PB.local_ty(r[1])]
                roots = (roots - set(up_roots)) | proots
                up_roots = [r for r in proots if r[0] == "upvar"]
                if node_roots and not (via & (set(RESTART) | set(DESCENT))):
                    kinds.append(("same", sorted(via - _NEUTRAL_VIA(via)) or None))
                    continue
        if via & set(RESTART):
            kinds.append(("restart", sorted(via & set(RESTART))))
        elif via & set(DESCENT):
            if node_roots or up_roots:
                kinds.append(("descent", sorted(via & set(DESCENT))))
            else:
                kinds.append(("unknown", "children of a node that is not the caller's own node"))
        elif node_roots and not (via - _NEUTRAL_VIA(via)):
            kinds.append(("same", None))
        elif node_roots:
            kinds.append(("same", sorted(via)))
        else:
            kinds.append(("unknown", f"node argument derived from {sorted(roots)} via {sorted(via)}"))
    order = ["restart", "unknown", "same", "descent"]
    kinds.sort(key=lambda k: order.index(k[0]))
    return kinds[0]


def _captured_in_parent(F, B, up_roots):
    """(roots, via, parent Body) of the values a closure captured, sliced in the function that creates the closure; None when
    the creation site is not found"""
    path = B.fact.get("path") or ""
    if "::{closure#" not in path:
        return None
    pb = F.lib.body(path.rsplit("::{closure#", 1)[0])
    if pb is None or not pb.get("mir"):
        return None
    PB = M.Body(pb)
    roots, via = set(), set()
    found = False
    for i in sorted(PB.reach):
        for st in PB.blocks[i]["stmts"]:
            if st["k"] == "assign" and st["rv"]["k"] == "aggregate" and st["rv"].get("closure") == path:
                for r in up_roots:
                    if r[1] < len(st["rv"]["ops"]):
                        rs, vs = M.slice_info(PB, st["rv"]["ops"][r[1]])
                        roots |= rs
                        via |= vs
                        found = True
    return (roots, via, PB) if found else None


def _NEUTRAL_VIA(via):
    return {v for v in via if v.endswith(("Iterator::next", "IntoIterator::into_iter", "Iterator::filter", "Iterator::find",
                                          "ops::Deref::deref", "Clone::clone"))}


def _op_ty(B, a):
    p = a["p"]
    if p.get("proj"):
        return ""  # projections: type unknown here; handled by root local type when whole
    return B.local_ty(p["l"])


def restart_guard(B, bb):
    """visited-stack idiom: the recursive call in block bb is dominated by (1) the false arm of a membership test
    (`iter().any(..)` / `contains`) over a field F of a `&mut` document parameter and (2) a later `push` onto the same F."""
    # the same idiom on a set: `if !visited.insert(key) { return Err(..) }` tests and marks in one step (insert yields false when
    # the key was there already); the call must lie on the arm where it yielded true
    for tbb, tt in B.calls():
        d = M.Body.callee_decl(tt) or ""
        if not (d.endswith("::insert") and ("BTreeSet" in d or "HashSet" in d)) or tt.get("target") is None or tbb == bb or not B.dominates(tbb, bb):
            continue
        if not any(o.kind == "arg" and o.fields() for o in M.trace(B, tt["args"][0], ())):
            continue
        sw = B.term(tt["target"])
        res = tt["dest"]["l"]
        # `!inserted`: a Not in the target block before the switch
        negated = any(st["k"] == "assign" and st["rv"]["k"] == "unop" and st["rv"].get("op") == "Not" and st["rv"]["a"].get("p", {}).get("l") == res
                      for st in B.blocks[tt["target"]]["stmts"]) if tt["target"] < len(B.blocks) else False
        if sw.get("k") != "switch":
            continue
        zero_t = [tgt for v, tgt in sw["targets"] if v == 0]
        if not zero_t:
            continue
        inserted_arm, present_arm = (zero_t[0], sw["otherwise"]) if negated else (sw["otherwise"], zero_t[0])
        if B.dominates(inserted_arm, bb) and bb not in B.reachable_from(present_arm, avoid=[tbb]):
            return True, "test-and-insert on a visited set dominates the call"
    pushes = []
    push_roots = {}
    marks = list(B.calls_to("Vec::<T, A>::push")) + [(b_, t_) for b_, t_ in B.calls() if (M.Body.callee_decl(t_) or "").endswith("::insert")
                                                      and any(w in (M.Body.callee_decl(t_) or "") for w in ("BTreeSet", "HashSet")) and len(t_.get("args") or []) == 2]
    for pbb, pt in marks:      # (`stack.push(key)` or, on a set, `visited.insert(key)` behind a separate `contains` test)
        fs = [tuple(o.fields()) for o in M.trace(B, pt["args"][0], ()) if o.kind == "arg"]
        if fs and B.dominates(pbb, bb) and pbb != bb:
            pushes.append((pbb, fs[0]))
            roots, _ = M.slice_info(B, pt["args"][1])
            push_roots[pbb] = {r for r in roots if r[0] in ("arg", "upvar")}
    if not pushes:
        return False, "no push onto a visited-stack dominates the call"
    for tbb, tt in B.calls():
        d = M.Body.callee_decl(tt) or ""
        if not (d.endswith(("Iterator::any", "[T]>::contains", "Vec::<T, A>::contains")) or (d.endswith("::contains") and any(w in d for w in ("BTreeSet", "HashSet")))):
            continue
        roots, via = M.slice_info(B, tt["args"][0])
        fields_ok = False
        for o in M.trace(B, tt["args"][0], M.IDENTITY_CALLS + ("[T]>::iter", "IntoIterator::into_iter")):
            if any(tuple(o.fields()) == f for _, f in pushes):
                fields_ok = True
        if not fields_ok or tt.get("target") is None:
            continue
        # the switch on the test's result: directly behind the call, or behind the return of an inlined helper that made the test
        sw_bb, hops = tt["target"], 0
        while B.term(sw_bb).get("k") == "goto" and hops < 8:
            sw_bb, hops = B.term(sw_bb)["target"], hops + 1
        sw = B.term(sw_bb)
        if sw.get("k") != "switch" or (hops and not any(o.kind == "call" and o.bb == tbb for o in M.trace(B, sw["discr"], M.IDENTITY_CALLS))):
            # the result is kept in a local and tested later (`let seen = visited.contains(k); .. if seen { return Err }`): that is the
            # same test as long as the collection cannot change in between
            sw = None
            for y in sorted(B.reachable_from(tbb)):
                cand = B.term(y)
                if cand.get("k") == "switch" and cand["discr"].get("k") in ("copy", "move") and any(
                        o.kind == "call" and o.bb == tbb for o in M.trace(B, cand["discr"], M.IDENTITY_CALLS)):
                    muts = [mbb for mbb, mt in B.calls() if (M.Body.callee_decl(mt) or "").endswith(("::push", "::pop", "::insert", "::remove", "::clear", "::retain", "::truncate"))
                            and any(tuple(o.fields()) == f for o in M.trace(B, mt["args"][0], ()) for _, f in pushes)]
                    if not any(mbb in B.reachable_from(tbb) and y in B.reachable_from(mbb) for mbb in muts):
                        sw, sw_bb = cand, y
                    break
            if sw is None:
                continue
        false_t = [tgt for v, tgt in sw["targets"] if v == 0]
        # (3) the value tested must be the value pushed: same roots (a test on one key and a push of another never meet)
        test_roots = set()
        for a in tt["args"][1:]:
            for o in M.trace(B, a, ()):
                if o.kind == "aggregate" and o.rv.get("closure"):
                    for cap in o.rv["ops"]:
                        r, _ = M.slice_info(B, cap)
                        test_roots |= {x for x in r if x[0] in ("arg", "upvar")}
                else:
                    r, _ = M.slice_info(B, a)
                    test_roots |= {x for x in r if x[0] in ("arg", "upvar")}
        same_key = any(push_roots.get(pbb) == test_roots for pbb, _ in pushes)
        if false_t and not same_key:
            why_not = f"the membership test looks at {sorted(test_roots)} but the value pushed derives from {[sorted(v) for v in push_roots.values()]}"
            return False, why_not
        if false_t and B.dominates(false_t[0], bb) and any(B.dominates(false_t[0], pbb) for pbb, _ in pushes):
            # the true arm must not reach the call
            true_t = sw["otherwise"]
            if bb not in B.reachable_from(true_t, avoid=[tbb]):
                return True, "membership test + push on the same visited stack dominate the call"
    return False, "no membership test over the pushed collection guards the call"


def run(ck, F):
    ck.explanation = (
        "(R1) a type-resolved inventory over the MIR of every non-test zeep-lib body of panic-family operations (unwrap/expect "
        "families, panicking::*, assert_failed, Index, Vec::remove/insert, RefCell borrows, process::exit, and every MIR Assert "
        "terminator: overflow, bounds, division), each a violation unless dominated by a recognised guard on the same place; "
        "(R2) every call-graph cycle is classified edge by edge from the backward data slice of the XML-node argument: strict "
        "descent (children of the caller's own node), same node, restart (re-derived from the root/ancestors) or guarded by a "
        "visited-stack test; a restart edge must be guarded and the cycle must otherwise contain a strict descent; (R4) every CFG "
        "cycle must be an iterator loop, a parent ascent or a counter loop. The import recursion is C11.R1. Nothing is executed.")
    ck.assumptions = ["roxmltree, Inflector, url, reqwest::Url parsing and std do not panic on any input",
                      "iterators over XML children/descendants/str::split are finite",
                      "time bounds are not decided",
                      "stack depth: documents nested deeply enough to exhaust the stack in zeep's descent overflow roxmltree first"]
    ck.rule("R1", "no panic-family operation (call or MIR Assert) in non-test zeep-lib code unless dominated by a guard on the same place")
    ck.rule("R2", "every recursion is well-founded: restart edges are guarded by a visited-stack test, and every other cycle contains "
                  "a strict descent on the XML tree")
    ck.rule("R3", "recursion depth: descent recursions go one frame per nesting level of the parsed document (stated limit, not armed)")
    ck.rule("R4", "every loop is an iterator loop, a parent ascent, or a counter loop with a membership exit")
    # ---- R1
    hits = [h for h in scans.scan_panics(F.lib) if in_scope(h[0])]
    n_guarded = 0
    for (fn, site, what, n, bb) in hits:
        B = M.Body(F.lib.body(fn))
        t = B.term(bb)
        if t.get("k") == "call" and what.endswith(("::unwrap", "::expect")) and guarded_unwrap(B, bb, t):
            n_guarded += 1
            ck.ok("R1", f"{what}#{n}:guarded", site, f"{what} dominated by a test of the same value", fn=fn)
            continue
        if t.get("k") == "call" and what.endswith("str>::split_at"):
            why = guarded_split_at(B, bb, t)
            if why:
                n_guarded += 1
                ck.ok("R1", f"{what}#{n}:guarded", site, f"split position inside the text: {why}", fn=fn)
                continue
        if t.get("k") == "assert":
            why = guarded_bounds(F, B, bb, t)
            if why:
                n_guarded += 1
                ck.ok("R1", f"assert:BoundsCheck#{n}:guarded", site, f"index in bounds: {why}", fn=fn)
                continue
        ck.violation("R1", f"{what}#{n}", site, f"{what}: input-dependent panic reachable from the public API", fn=fn)
    ck.count("R1:bodies scanned", sum(1 for b in scans.bodies(F.lib) if in_scope(b["path"])))
    if not hits:
        ck.ok("R1", "no-panic-ops", "-", "no panic-family call or Assert terminator in non-test zeep-lib code")
    ctl = factsmod.controls()
    cb = {}
    for (fn, site, what, n, bb) in scans.scan_panics(ctl):
        B = M.Body(ctl.body(fn))
        t = B.term(bb)
        g = t.get("k") == "call" and what.endswith(("::unwrap", "::expect")) and guarded_unwrap(B, bb, t)
        cb.setdefault(fn, []).append("guarded" if g else "flagged")
    want_flag = {"c13_unwrap", "c13_expect", "c13_index", "c13_assert", "c13_overflow", "c15_unwrapped", "c15_in_closure::{closure#0}"}
    flagged = {f for f, v in cb.items() if "flagged" in v}
    if flagged == want_flag and cb.get("c13_guarded") == ["guarded"]:
        ck.ok("R1", "positive-control", "engine/controls/src/lib.rs", f"controls flagged {sorted(flagged)}; guarded unwrap accepted")
    else:
        ck.undecided("R1", "positive-control", "engine/controls/src/lib.rs",
                     f"panic scanner on controls: flagged={sorted(flagged)} expected={sorted(want_flag)} guarded={cb.get('c13_guarded')}")
    # ---- R2 / R3
    g = scans.call_graph(F.lib)
    local = {b["path"] for b in F.lib.bodies if b.get("mir") and in_scope(b["path"])}
    comps = [c for c in C11.sccs(g, local) if len(c) > 1 or c[0] in g.get(c[0], ())]
    ck.floor("R2", "call-graph cycles", len(comps), 2)
    import_cycles = 0
    for comp in comps:
        cs = set(comp)
        is_import = any("read_xml_internal" in c for c in comp) or any(
            M.Body(F.lib.body(c)).calls_to(C11.PARSE) for c in comp)
        label = "import-recursion" if is_import else "type-conversion-recursion" if any("try_from_node" in c for c in comp) else "recursion:" + sorted(comp)[0]
        if is_import:
            import_cycles += 1
            continue
        remaining = {c: set() for c in comp}
        unguarded = {c: set() for c in comp}    # every intra-cycle edge without a visited guard in front of it
        restarts = []
        n_edges = 0
        has_descent = False
        # each member with its private helpers and the closures it calls directly inlined (calls to members of the cycle stay calls):
        # a guard that lives in a helper taking the recursive step as a closure is then seen in one body
        member_stop = lambda p, cs=cs: p in cs and "{closure" not in p
        bodies_ = {}
        absorbed = set()
        for c in comp:
            if "{closure" in c:
                continue
            bodies_[c] = M.Body(I.Inliner(F.lib, stop=member_stop).body(F.lib.body(c)))
            absorbed |= {p for p, _ in bodies_[c].fact.get("inlined", []) if "{closure" in p}
        for c in comp:
            if c in absorbed:
                continue   # its calls are part of the function that calls it (inlined there)
            B = bodies_.get(c) or M.Body(F.lib.body(c))
            seen = {}
            for bb, t in B.calls():
                callee = M.Body.callee(t) or ""
                if callee not in cs:
                    callee = M.Body.callee_decl(t) or ""
                    if callee not in cs:
                        continue
                n_edges += 1
                kind, detail = classify_edge(F, B, bb, t, F.lib.body(callee))
                k = f"{callee.rsplit('::', 2)[-2] if callee.startswith('<') else callee.rsplit('::', 1)[-1]}"
                n = seen.get(callee, 0)
                seen[callee] = n + 1
                site = B.term(bb).get("sp")
                # a visited guard in front of the call (membership test + push of the same key) bounds every cycle through this edge,
                # whatever node the edge passes on: such an edge is cut out of the graph
                g_ok, g_why = restart_guard(B, bb)
                if kind == "descent":
                    has_descent = True
                    if not g_ok:
                        unguarded[c].add(callee)
                    ck.ok("R2", f"edge:{callee}#{n}:descent", site, f"{c} -> {callee}: strict descent ({detail})", fn=c)
                elif kind == "restart":
                    if g_ok:
                        ck.ok("R2", f"edge:{callee}#{n}:restart-guarded", site, f"{c} -> {callee}: restart from {detail}, {g_why}", fn=c)
                    else:
                        unguarded[c].add(callee)
                        restarts.append((c, callee, n, site, detail, g_why))
                elif kind in ("same", "no-node"):
                    if g_ok:
                        ck.ok("R2", f"edge:{callee}#{n}:{kind}-guarded", site, f"{c} -> {callee}: {kind} node, {g_why}", fn=c)
                    else:
                        remaining[c].add(callee)
                        unguarded[c].add(callee)
                        ck.ok("R2", f"edge:{callee}#{n}:{kind}", site, f"{c} -> {callee}: {kind} node (neutral)", fn=c)
                else:
                    remaining[c].add(callee)
                    unguarded[c].add(callee)
                    ck.undecided("R2", f"edge:{callee}#{n}:unclassified", site, f"{c} -> {callee}: {detail}", fn=c)
        # a restart (the conversion re-entered on a node found again in the tree) resets the descent: it is harmless only if every
        # cycle through it passes a guarded edge, i.e. if it lies on no cycle of the unguarded edges
        for (c, callee, n, site, detail, why) in restarts:
            if c in scans.reachable(unguarded, [callee]):
                ck.violation("R2", f"edge:{callee}#{n}:restart", site,
                             f"{c} -> {callee} re-enters the conversion on a node re-derived via {detail} with no visited guard ({why}) here or "
                             f"anywhere on the way back to this call: cyclic definitions recurse without bound", fn=c)
            else:
                ck.ok("R2", f"edge:{callee}#{n}:restart-guarded-downstream", site,
                      f"{c} -> {callee}: restart from {detail}; every way back to this call passes a visited guard", fn=c)
        ck.count("R2:intra-cycle call edges", n_edges)
        # the graph of neutral edges must be acyclic (every cycle passes a strict descent or a guarded restart)
        sub = [x for x in C11.sccs(remaining, cs) if len(x) > 1 or x[0] in remaining.get(x[0], ())]
        if sub:
            ck.violation("R2", f"{label}:neutral-cycle", "-",
                         f"functions {sorted(sub[0])} call each other without descending in the XML tree and without a guard", fn=label)
        else:
            ck.ok("R2", f"{label}:well-founded", "-", f"every cycle among {len(comp)} functions passes a strict descent or a guarded edge", fn=label)
        if has_descent:
            # not armed as a violation: inputs nested deeply enough to exhaust the stack here already overflow the XML parser
            # (roxmltree, trusted base; confirmed once with the real binary at depth 3000), so zeep's own descent cannot be
            # shown to be the failing component. Recorded as an assumption, see DESIGN.md C13.
            ck.ok("R3", f"{label}:depth-bounded-by-input", "-",
                  f"{label}: recursion depth = nesting depth of the (already parsed) document; not an independent overflow source", fn=label)
    if import_cycles:
        # cycles through the document parser (following imports / includes) terminate because a file is marked before its references
        # are followed and never unmarked during a run: the same obligations as C11.R1, decided here on this tree (not taken on trust)
        from rules import c04 as C04
        sub = C04._Sub(ck, "R2", lambda key: True, only_rules=("R1",))
        C11.run(sub, F)
    rule_copy_fanout(ck, F)
    rule_runtime_format_counts(ck, F)
    # ---- R4 loops
    n_loops = 0
    for b in scans.bodies(F.lib):
        if not in_scope(b["path"]):
            continue
        B = M.Body(b)
        for cyc in M.cfg_cycles(B):
            n_loops += 1
            calls = _loop_calls(F, B, cyc)
            site = B.term(cyc[0]).get("sp")
            if any(c.endswith("iter::Iterator::next") for c in calls):
                ck.ok("R4", f"loop@{_ord(b, cyc)}:iterator", site, "iterator loop", fn=b["path"])
            elif any(c.endswith("Node::<'a, 'input>::parent") for c in calls):
                ck.ok("R4", f"loop@{_ord(b, cyc)}:parent-ascent", site, "parent ascent (finite tree)", fn=b["path"])
            elif any(c.endswith("future::Future::poll") for c in calls):
                ck.ok("R4", f"loop@{_ord(b, cyc)}:await", site, "await poll loop", fn=b["path"])
            elif any(c.endswith(("wrapping_add", "checked_add", "saturating_add")) for c in calls) and any(
                    c.endswith(("Iterator::any", "::contains")) for c in calls):
                ck.ok("R4", f"loop@{_ord(b, cyc)}:counter", site, "counter loop whose exit is `no existing entry equals the candidate` (pigeonhole bound)", fn=b["path"])
            elif _work_list_descent(B, cyc):
                ck.ok("R4", f"loop@{_ord(b, cyc)}:work-list", site, "walk of the XML tree with a stack of child iterators: every round draws a node from the "
                      "top iterator or pops it; only the children of a node just drawn are pushed (finite tree)", fn=b["path"])
            else:
                ck.violation("R4", f"loop@{_ord(b, cyc)}", site, f"loop of unrecognised shape (calls: {sorted(set(calls))[:6]}): termination not established", fn=b["path"])
    ck.floor("R4", "loops", n_loops, 6)
    # .. and an iterator loop ends because the iterator does: no iterator of the library is made from a source without an end of its own
    # (`successors`, `repeat`, `from_fn`, `cycle`) unless its step is well-founded (towards the root of the finite XML tree ..) or it is cut by `take`
    endless = [h for h in scans.scan_endless_iterators(F.lib) if in_scope(h[0])]
    for (fn, site, src, verdict) in endless:
        short = src.rsplit("::", 1)[-1]
        if verdict == "endless":
            ck.violation("R4", f"endless-iterator:{short}:{fn.rsplit('::', 1)[-1]}", site,
                         f"`{short}` makes an iterator that ends only when its step function says so, and the step follows what the input says (a chain of "
                         f"references, a name looked up again): a cycle in the input keeps it running for ever", fn=fn)
        else:
            ck.ok("R4", f"endless-iterator:{short}:{fn.rsplit('::', 1)[-1]}", site, f"`{short}`: {verdict}", fn=fn)
    if not endless:
        ck.ok("R4", "endless-iterator:none", "-", "no iterator of the library is made from a source without an end of its own")
    cverd = {h[0]: h[3] for h in scans.scan_endless_iterators(factsmod.controls())}
    if cverd.get("c13_endless_successors") == "endless" and cverd.get("c13_ascent") == "well-founded":
        ck.ok("R4", "endless-iterator:positive-control", "engine/controls/src/lib.rs", f"controls: {sorted(cverd.items())}")
    else:
        ck.undecided("R4", "endless-iterator:positive-control", "engine/controls/src/lib.rs", f"the scan for endless iterators reports {sorted(cverd.items())} on the controls")


def rule_runtime_format_counts(ck, F):
    """(R1) a width / precision taken from a run-time value is a panic site of the formatting machinery (above 65535): it is a
    constant, or cut at one, wherever the library formats with one"""
    from engine.rulekit import facts as factsmod
    hits = [h for h in scans.scan_runtime_format_counts(F.lib, in_scope) if "tests::" not in h[0]]
    for (fn, site, verdict) in hits:
        short = fn.rsplit("::", 1)[-1]
        if verdict.startswith("unbounded"):
            ck.violation("R1", f"format-count:{short}", site,
                         f"{fn} formats with a width / precision computed at run time ({verdict[11:]}): `core::fmt` panics with \"Formatting argument out "
                         f"of range\" when it is above 65535 — a value of that length in the input aborts the generation", fn=fn)
        else:
            ck.ok("R1", f"format-count:{short}", site, f"run-time width / precision is {verdict}", fn=fn)
    if not hits:
        ck.ok("R1", "format-count:none", "-", "the library formats with no width / precision computed at run time")
    cv = {h[0].split("::{closure", 1)[0]: h[2].split(":")[0] for h in scans.scan_runtime_format_counts(factsmod.controls())}
    if cv.get("c13_width_follows_data") == "unbounded" and cv.get("c13_width_cut") == "bounded":
        ck.ok("R1", "format-count:positive-control", "engine/controls/src/lib.rs", f"controls: {sorted(cv.items())}")
    else:
        ck.undecided("R1", "format-count:positive-control", "engine/controls/src/lib.rs", f"the scan for run-time format counts reports {sorted(cv.items())} on the controls")


def rule_copy_fanout(ck, F):
    """A component that is referred to is copied into the referring one by value (the base type's members into the derived type).
    One copy per component keeps the work linear in the depth of the chain. A copy made *per child* — from a loop over the children,
    into the list that loop fills — multiplies: k levels of components that each refer to two others are 2^k members (a 4 KB schema
    exhausts the memory). Decided structurally: no function that copies the members of a looked-up component into a member list it
    was handed is called from inside a loop."""
    from rules import anchors as A
    from engine.rulekit import hir as Hh
    lookups = {p_ for p_, _i, _j in A.component_lookups(F)}
    copiers = {}
    for f in A._fn_items(F):
        ins = [A._norm_ty(x) for x in f["inputs"]]
        holders = tuple("&mut" + A._norm_ty(h_) for h_ in (A.field_list_holders(F) or {}))
        if not (any(x.startswith("&mutstd::vec::Vec<model::field::Field>") or (holders and x.startswith(holders)) for x in ins)
                or "std::vec::Vec<model::field::Field>" in A._norm_ty(f["output"])):
            continue
        b = F.lib.body(f["path"])
        if b is None or b.get("hir") is None or "tests::" in f["path"]:
            continue
        nb = Hh.norm_body(b)
        looks = any(x.get("k") in ("Call", "MethodCall") and (Hh.callee_path(x) or "") in lookups for x in Hh.exprs(nb["value"]))
        copies = False
        for x in Hh.exprs(nb["value"]):
            if x.get("k") == "For" and ".fields" in Hh.describe(x["iter"]):
                copies = True
            if x.get("k") == "MethodCall" and x["name"] in ("extend", "extend_from_slice", "clone_from", "append") and any(".fields" in Hh.describe(a) for a in x["args"]):
                copies = True
            if x.get("k") == "MethodCall" and x["name"] in ("clone", "to_vec", "to_owned") and Hh.describe(x["recv"]).endswith(".fields"):
                copies = True
        if looks and copies:
            copiers[f["path"]] = b
    n = 0
    for b in F.lib.bodies:
        if b.get("hir") is None or b.get("closure") or "tests::" in b["path"]:
            continue
        nb = Hh.norm_body(b)
        short = b["path"].rsplit("::", 1)[-1]

        def visit(e, loops):
            nonlocal n
            if isinstance(e, list):
                for x in e:
                    visit(x, loops)
                return
            if not isinstance(e, dict):
                return
            k = e.get("k")
            if k in ("Call", "MethodCall") and (Hh.callee_path(e) or "") in copiers:
                n += 1
                cshort = (Hh.callee_path(e) or "").rsplit("::", 1)[-1]
                if loops:
                    ck.violation("R2", f"copy-fanout:{short}->{cshort}", Hh.sp(e),
                                 f"{short} calls {cshort} — which copies the members of a component it looks up into the list it is handed — from inside a loop: "
                                 f"one copy per child multiplies along a chain of references (2^k members for k levels with two references each), so a small "
                                 f"acyclic schema exhausts time and memory", fn=short)
                else:
                    ck.ok("R2", f"copy-fanout:{short}->{cshort}", Hh.sp(e), f"{cshort} is called once per component, outside every loop", fn=short)
            if k in ("For", "Loop"):
                loops = loops + [e]
            elif k == "MethodCall" and e.get("name") in ("for_each", "try_for_each", "map", "filter_map", "flat_map", "fold", "try_fold"):
                loops = loops + [e]
            for key, v in e.items():
                if isinstance(v, (dict, list)):
                    visit(v, loops)
        visit(nb["value"], [])
    ck.floor("R2", "calls of by-value component copies judged", n, 1)


def _ord(b, cyc):
    return f"bb{cyc[0]}"


DRAWS = ("iter::Iterator::find", "iter::Iterator::next", "iter::Iterator::find_map", "iter::Iterator::nth", "DoubleEndedIterator::next_back")


def _work_list_descent(B, cyc):
    """a recursion over the XML tree written as a loop with a stack of its own: the loop looks at the top of a `Vec` of child
    iterators (`last_mut` / `pop`), draws a node from it (`find` / `next`) or pops it when it is used up, and pushes nothing but the
    `children()` of a node it has just drawn. Every node of the (finite) tree is drawn at most once per iterator that holds it and
    gives rise to at most one push: the walk ends."""
    cyc = set(cyc)
    stack_locals = set()
    tops, pops, pushes, draws = [], [], [], []
    for x in cyc:
        t = B.term(x)
        if t.get("k") != "call" or not t.get("args"):
            continue
        d = M.Body.callee_decl(t) or ""
        if d.endswith(("[T]>::last_mut", "[T]>::last", "Vec::<T, A>::pop", "Vec::<T, A>::push")):
            os_ = M.trace(B, t["args"][0], M.IDENTITY_CALLS + ("ops::DerefMut::deref_mut",))
            ty = " ".join(str(B.local_ty(getattr(o, "local", None))) for o in os_ if getattr(o, "local", None) is not None)
            if "roxmltree::Children" not in ty and "roxmltree::Descendants" not in ty:
                # the type of the vector itself
                tys = [str(B.local_ty(o.local)) for o in os_ if o.kind in ("arg",)] + [str(B.local_ty(t["args"][0]["p"]["l"]))] if t["args"][0].get("k") in ("copy", "move") else []
                if not any("roxmltree::Children" in y for y in tys):
                    continue
            if d.endswith("::push"):
                pushes.append(t)
            elif d.endswith("::pop"):
                pops.append(t)
            else:
                tops.append(t)
        elif d.endswith(DRAWS):
            draws.append((x, t))
    if not (tops or pops) or not pops or not draws:
        return False
    draw_bbs = {x for x, _ in draws}
    for t in pushes:
        if len(t["args"]) != 2:
            return False
        os_ = M.trace(B, t["args"][1], M.IDENTITY_CALLS)
        if not os_:
            return False
        for o in os_:
            if not (o.kind == "call" and (M.Body.callee_decl(o.term) or "").endswith("Node::<'a, 'input>::children") and o.bb in cyc):
                return False
            src = M.trace(B, o.term["args"][0], M.IDENTITY_CALLS)
            if not src or not all(s_.kind == "call" and s_.bb in draw_bbs for s_ in src):
                return False
    return True


def _loop_calls(F, B, cyc, depth=0):
    """Callee declarations of the calls in the loop, including those made by closures that the loop body calls or hands to a
    call (`opt.map_or(1, |n| n.wrapping_add(1))`, `is_taken(&x)` with `let is_taken = |c| list.iter().any(..)`)."""
    out = []
    for x in cyc:
        t = B.term(x)
        if t.get("k") != "call":
            continue
        out.append(M.Body.callee_decl(t) or "")
        if depth > 2:
            continue
        for a in t.get("args", []):
            for o in M.trace(B, a, M.IDENTITY_CALLS):
                if o.kind == "aggregate" and o.rv.get("closure"):
                    cb = F.lib.body(o.rv["closure"])
                    if cb is not None and cb.get("mir"):
                        CB = M.Body(cb)
                        out += _loop_calls(F, CB, sorted(CB.reach), depth + 1)
    return out
