"""C18 — client futures are Send and usable from a multi-threaded runtime."""
import re

from engine.rulekit import og
from engine.rulekit import witness as W
from rules import templates as T

LEVEL = "proof"
FORBIDDEN_IN_STRUCTS = ("Rc<", "RefCell<", "Cell<", "*const", "*mut", "dyn ", "Rc::", "std::rc")


def run(ck, F):
    ck.level = "proof"
    ck.explanation = (
        "Type-level witnesses decided by rustc's type checker: the emitted prelude (compiler-evaluated HEADER constant + the helper "
        "source + a fixed witness module) is assembled from the current tree and type-checked against exactly the six documented "
        "crates. Generic witness functions quantify over every request/response type (`fn w<YI: .. + Send, YO>() { assert_send(&"
        "helper::<YI,YO,..>(..)) }`). The member-type universe of generated structs is closed statically on the output grammar "
        "(type holes are filled only from RustFieldType's Display; no Rc/RefCell/pointer/dyn in struct templates), which extends the "
        "witnesses to all generated envelopes by induction on their definition.")
    ck.checker_cmd = "cargo check --offline (stable, edition 2024) on the assembled witness crate: /verif/witness/build.sh check"
    ck.trusted_base = ["rustc 1.95 type checker and auto-trait rules", "the six dependency crates as pinned by /repo/Cargo.lock",
                       "C01.R2 (emitted helper text = analysed helper module)", "C05.R5 (generated methods only forward to the helper)"]
    ck.assumptions = list(ck.trusted_base)
    ck.rule("R1", "helper futures are Send for all request types: generic witnesses over send_soap_request_using_client::<YI,YO,&str,&str>, "
                  "::<YI,YO,String,String> and send_soap_request type-check")
    ck.rule("R2", "MultiRef<T>: Send + Sync for T: Send + Sync; SoapError: Send + Sync")
    ck.rule("R3", "generated client methods / free functions: `assert_send` on every operation shape sample (type-checked skeletons)")
    ck.rule("R4", "member-type universe: struct member type holes come only from RustFieldType's Display under Option/Vec; no "
                  "Rc/RefCell/Cell/raw pointer/dyn in any struct template literal")
    try:
        segs = W.prelude_segments(F)
    except W.FixedTextUnreadable as u:
        ck.undecided("R1", "prelude", "-", f"the fixed part of the output (header, helper text) could not be assembled: {u}")
        return
    ok, diags = W.check(F, segs, "c18")
    wit = open(W.TAIL).read()
    fns = re.findall(r"\n    fn (\w+)", wit)
    if ok:
        for fn in fns:
            ck.ok("R1" if "future" in fn else "R2", f"witness:{fn}", "witness/prelude/witness_tail.rs", f"witness `{fn}` type-checks against the current helper", fn=fn)
    else:
        seen = set()
        for d in diags:
            # attribute the diagnostic to the enclosing witness function if it is in the witness segment
            where = f"{d['segment']}:{d['line']}"
            fnname = None
            if d["segment"] == "witness":
                lines = wit.split("\n")
                for i in range(min(d["line"], len(lines)) - 1, -1, -1):
                    m = re.match(r"\s*fn (\w+)", lines[i])
                    if m:
                        fnname = m.group(1)
                        break
            key = fnname or f"{d['segment']}:{d['code']}"
            if key in seen:
                continue
            seen.add(key)
            rule = "R1" if (fnname and "future" in fnname) else "R2"
            ck.violation(rule, f"witness:{key}", where,
                         f"type-level witness fails ({d['code']}): {d['message'][:300]} | {d['text']}", fn=key)
    ck.floor("R1", "witness functions", len(fns), 9)
    # R3: Send obligations on sampled client methods / free functions / envelopes (E4)
    from rules import e4
    res = e4.run(F, ck.tier)
    n_m = sum(1 for a in res["asserts"] if re.match(r"\s*fn m_", a))
    n_f = sum(1 for a in res["asserts"] if re.match(r"\s*fn f_", a))
    n_s = sum(1 for a in res["asserts"] if re.match(r"\s*fn s_", a))
    ck.count("R3:method futures asserted Send", n_m)
    ck.count("R3:free-function futures asserted Send", n_f)
    ck.count("R3:envelope types asserted Send+Sync", n_s)
    if res["template_errors"] or [d for d in res["other"] if d["segment"] != "witness"]:
        ck.undecided("R3", "samples-do-not-compile", "witness crate",
                     "the sampled generated code does not type-check (see C01.R3), so the Send obligations on it could not be discharged")
    else:
        seen = set()
        for d, kind, src in res["send_errors"]:
            what = {"m": "client method", "f": "free operation function", "s": "envelope type"}[kind]
            key = f"{what}:{d['code']}"
            if key in seen:
                continue
            seen.add(key)
            ck.violation("R3", key, "witness crate", f"a sampled {what} is not Send(+Sync): {d['message'][:200]} | {src[:160]}")
        if not res["send_errors"]:
            ck.ok("R3", "sampled-futures-send", "witness crate",
                  f"{n_m} method futures, {n_f} free-function futures and {n_s} envelope types of {res['samples']} derivations satisfy Send / Send+Sync")
    # every operation signature the samples contain must have been recognised (and so asserted): an unrecognised one is a gap
    unrec = sorted({p_[2] for r_ in res["renders"].values() for p_ in r_.problems if p_[0] == "operation-signature"})
    for sig in unrec[:4]:
        ck.undecided("R3", "operation-signature", "witness crate", f"a generated operation function has a signature the sampler does not recognise, no Send "
                     f"obligation was stated for it: `{sig}`")
    if n_f == 0 or n_m == 0:
        ck.undecided("R3", "operation-kinds", "witness crate", f"Send obligations cover {n_m} client methods and {n_f} free operation functions: one kind is missing "
                     f"from the samples")
    ck.floor("R3", "Send obligations on samples", n_m + n_f + n_s, 10)
    # R4 on the output grammar
    X = T.extractor(F)
    n = 0
    for fn in T.struct_emitters(X):
        for g in T.struct_groups(X, fn):
            if not any("YaSerialize" in e.skeleton() for e in g.pre):
                continue
            for (ev, name, ctx, tytext) in g.members:
                n += 1
                lit = "".join(p[1] for p in ev.parts if p[0] == "lit")
                bad = [f for f in FORBIDDEN_IN_STRUCTS if f in lit]
                if bad:
                    ck.violation("R4", f"{og.nf_str(g.name)}:{og.nf_str(name)}:forbidden-type", ev.site,
                                 f"member template mentions {bad}: the generated struct is not Send/Sync", fn=fn)
                    continue
                # type holes: every hole after the `:` must be RustFieldType Display, a module name or a generated struct name
                ok_holes = True
                for (nf, tr, ty) in ev.holes()[1:] if RE_NAME_HOLE(ev) else ev.holes():
                    t = ty.replace("&", "").strip()
                    if t in ("model::field::RustFieldType", "std::string::String", "str"):
                        continue
                    ok_holes = False
                    ck.violation("R4", f"{og.nf_str(g.name)}:{og.nf_str(name)}:type-hole", ev.site,
                                 f"member type is filled from a value of type `{ty}`", fn=fn)
                if ok_holes:
                    ck.ok("R4", f"{og.nf_str(g.name)}:{og.nf_str(name)}", ev.site, "member type text is owned data (primitive/String/generated struct under Option/Vec)", fn=fn)
    ck.floor("R4", "struct member templates", n, 4)


def RE_NAME_HOLE(ev):
    return bool(T.RE_MEMBER.match(ev.skeleton())) and T.RE_MEMBER.match(ev.skeleton()).group(1) == "{}"
