"""C16 — one POST per call; 4xx/5xx and unparsable replies are errors, never values.

Decided on the MIR of the coroutine body of the helper's sending function (the async fn of
`model::helpers_content::helpers` that calls `RequestBuilder::send`), which is the code every
generated client method runs (C05.R5 checks that generated methods only forward to it)."""
from engine.rulekit import inline as I
from engine.rulekit import mir as M
from engine.rulekit import pp
from rules import common_helper as H

REQUEST_CTORS = ("reqwest::Client::get", "reqwest::Client::put", "reqwest::Client::patch", "reqwest::Client::delete",
                 "reqwest::Client::head", "reqwest::Client::request", "reqwest::Client::execute", "reqwest::get",
                 "reqwest::blocking::get", "reqwest::RequestBuilder::try_clone", "reqwest::RequestBuilder::build")
DEFAULTING = ("unwrap_or", "unwrap_or_default", "unwrap_or_else", "Result::<T, E>::ok", "default::Default::default",
              "Option::<T>::unwrap_or", "Result::<T, E>::unwrap", "Result::<T, E>::expect")


BUILDER_STEPS = ("reqwest::RequestBuilder::body", "reqwest::RequestBuilder::basic_auth", "reqwest::RequestBuilder::header", "reqwest::RequestBuilder::headers",
                 "reqwest::RequestBuilder::timeout", "reqwest::RequestBuilder::bearer_auth", "reqwest::RequestBuilder::version")
BUILDER_IDENT = H.FLOW_IDENTITY + BUILDER_STEPS


def _steps_of(B, operand):
    """blocks of the builder-method calls the value went through on its way from `post` (on some path)"""
    out = set()
    for o in M.trace(B, operand, BUILDER_IDENT):
        for st in o.steps:
            if st[0] == "call" and st[1].endswith(tuple(x.rsplit("::", 1)[-1] for x in BUILDER_STEPS)) and "RequestBuilder" in st[1]:
                out.add(st[2])
    return out


def sp(B, bb):
    return B.term(bb).get("sp", "?")


def run(ck, F):
    ck.explanation = (
        "Static must-pass-through / provenance analysis of the MIR control-flow graph (mir_built, coroutine body) of the "
        "helper function that performs the HTTP exchange: call inventory (one post, one send, no other request "
        "constructor, none in a cycle), dominance of `basic_auth` by the Some arm of the credentials test, dominance of every "
        "Ok return by the propagated status check, and def-use provenance of the Ok payload from the parsed body. "
        "Nothing is executed; reqwest/yaserde behaviour is trusted.")
    ck.assumptions = ["reqwest::Response::error_for_status[_ref] returns Err exactly for 4xx/5xx statuses",
                      "yaserde::de::from_str returns Err for a body that is not the expected envelope",
                      "generated client methods only forward to this helper (checked by C05.R5)"]
    ck.rule("R1", "exactly one request: one Client::post and one RequestBuilder::send call site, neither in a CFG cycle; no other "
                  "request constructor; URL from the `url` parameter; body from yaserde::ser::to_string(&req)")
    ck.rule("R2", "credentials exactly when configured: basic_auth is called in, and only in, the Some arm of the credentials "
                  "parameter, with (user, Some(password)) from the tuple in order, on the builder that reaches send")
    ck.rule("R3", "status gate: a propagated Response::error_for_status[_ref] on the sent response dominates every Ok return")
    ck.rule("R4", "the Ok payload originates only from the Ok of yaserde::de::from_str over the awaited response text; no "
                  "defaulting/unwrapping on the way")
    ck.rule("R5", "errors, not panics: no panic-family operation (index / slice by position, unwrap / expect, overflow assertion, "
                  "explicit panic) in any function of the emitted module that the exchange reaches, its error conversions included")
    senders = H.sender_fn(F)
    ck.floor("R1", "functions calling RequestBuilder::send", len(senders), 1)
    if not senders:
        return
    # every entry function that sends is judged on its own (two entries that share the private halves of the exchange — check and
    # serialize, then post and read — are two senders, each of which makes exactly one request per call)
    senders = sorted(senders, key=lambda b_: (0 if "client" in (b_.get("upvars") or []) else 1, b_["path"]))

    def judge(ck, fb, first):
        # the sending function with the helper module's own functions inlined: sync helpers, directly called closures and awaited
        # local async fns (their coroutine body runs in place of the poll); the restriction check stays a call (C07's anchor)
        B = M.Body(I.Inliner(F.lib, stop=lambda p: "CheckRestrictions" in p or H.is_entry(F, p)).body(fb))
        ck.count("helper functions inlined into the sender", len(B.fact.get("inlined", [])))
        fn = fb["path"]
        short = fn.replace(H.HELPERS_MOD + "::", "")
        ck.count("blocks", len(B.reach))
        ck.count("calls", len(B.calls()))
        up = {n: i for i, n in enumerate(fb.get("upvars") or [])}

        def upvar_origin(operand, name, ident=H.FLOW_IDENTITY):
            os_ = M.trace(B, operand, ident)
            return bool(os_) and all(o.kind == "upvar" and o.name == name for o in os_)

        # ---------------- R1
        posts = B.calls_to("reqwest::Client::post")
        sends = B.calls_to("reqwest::RequestBuilder::send")
        for name, cs in (("Client::post", posts), ("RequestBuilder::send", sends)):
            if len(cs) == 1:
                bb, t = cs[0]
                if B.in_cycle(bb):
                    ck.violation("R1", f"{name}:in-cycle", sp(B, bb), f"{name} is called inside a loop (retry): more than one request per call", fn=short)
                else:
                    ck.ok("R1", f"{name}:once", sp(B, bb), f"single {name} call site, not in a cycle", fn=short)
            else:
                ck.violation("R1", f"{name}:count={len(cs)}", sp(B, cs[0][0]) if cs else fb["span"],
                             f"{len(cs)} call sites of {name} (expected exactly one)", fn=short)
        others = B.calls_to(*REQUEST_CTORS)
        for bb, t in others:
            ck.violation("R1", f"other-request:{M.Body.callee_decl(t)}", sp(B, bb),
                         f"additional request constructor {M.Body.callee_decl(t)}", fn=short)
        if not others:
            ck.ok("R1", "no-other-request", fb["span"], "no other request constructor in the function", fn=short)
        # calls into other local functions that themselves touch reqwest are not understood -> fail closed
        for bb, t in B.calls():
            callee = M.Body.callee(t) or ""
            sub = F.lib.body(callee)
            if sub is not None and sub.get("mir") and callee.startswith("model::helpers_content"):
                SB = M.Body(sub)
                if any("reqwest::" in (M.Body.callee_decl(x) or "") for _, x in SB.calls()) and not _is_status_gate(F, sub):
                    ck.undecided("R1", f"reqwest-in-callee:{callee}", sp(B, bb),
                                 f"{callee} performs reqwest calls of its own; inter-procedural request counting is not established", fn=short)
        post = H.one(posts)
        send = H.one(sends)
        if post:
            bb, t = post
            if upvar_origin(t["args"][1], "url"):
                ck.ok("R1", "url-param", sp(B, bb), "post URL is the `url` parameter", fn=short)
            else:
                ck.violation("R1", "url-param", sp(B, bb), "the URL passed to Client::post does not originate (only) from the `url` parameter: "
                             + repr(M.trace(B, t["args"][1], H.FLOW_IDENTITY)), fn=short)
            made_here = [o for o in M.trace(B, t["args"][0], H.FLOW_IDENTITY)]
            if upvar_origin(t["args"][0], "client"):
                ck.ok("R1", "client-param", sp(B, bb), "post uses the `client` parameter", fn=short)
            elif "client" not in up and made_here and all(o.kind == "call" and (M.Body.callee_decl(o.term) or "").endswith(
                    ("reqwest::Client::new", "Client::default", "default::Default::default", "ClientBuilder::build")) for o in made_here):
                ck.ok("R1", "client-param", sp(B, bb), "an entry without a `client` parameter posts with a client it makes itself", fn=short)
            else:
                ck.violation("R1", "client-param", sp(B, bb), "Client::post is not called on the `client` parameter", fn=short)
        bodies = B.calls_to("reqwest::RequestBuilder::body")
        if len(bodies) == 1:
            bb, t = bodies[0]
            src = H.origin_calls(B, t["args"][1])
            ok = len(src) == 1 and src[0][1] == "yaserde::ser::to_string"
            if ok:
                ser = src[0][2].term
                ok = upvar_origin(ser["args"][0], "req")
            # the builder the body is set on is the one made by post (credentials may have been added to it before: the order of the
            # builder steps does not matter for the request)
            recv = H.origin_calls(B, t["args"][0], BUILDER_IDENT)
            ok_recv = post is not None and bool(recv) and all(r[0] == post[0] for r in recv)
            if ok and ok_recv:
                ck.ok("R1", "body-provenance", sp(B, bb), "request body = yaserde::ser::to_string(&req) on the post builder", fn=short)
            else:
                ck.violation("R1", "body-provenance", sp(B, bb),
                             "the request body is not exactly the yaserde serialization of the `req` parameter set on the post builder", fn=short)
        else:
            ck.violation("R1", f"body:count={len(bodies)}", fb["span"], f"{len(bodies)} RequestBuilder::body calls (expected one)", fn=short)
        # the builder handed to send originates from the body()-builder, optionally through basic_auth
        auths = B.calls_to("reqwest::RequestBuilder::basic_auth")
        if send and len(bodies) == 1:
            src = H.origin_calls(B, send[1]["args"][0], BUILDER_IDENT)
            bad = [s for s in src if post is None or s[0] != post[0]]
            through_body = bodies[0][0] in _steps_of(B, send[1]["args"][0])
            if bad or not src or not through_body:
                ck.violation("R1", "send-builder", sp(B, send[0]), "the builder that is sent does not come from post(url).body(..)[.basic_auth(..)]: "
                             + ", ".join(str(s[1]) for s in bad), fn=short)
            else:
                ck.ok("R1", "send-builder", sp(B, send[0]), "sent builder = post(url).body(xml)[.basic_auth(..)]", fn=short)
            # other builder methods that change the request (method, url) are not expected
            for bb, t in B.calls():
                d = M.Body.callee_decl(t) or ""
                if d.startswith("reqwest::RequestBuilder::") and d.rsplit("::", 1)[1] not in (
                        "body", "basic_auth", "send", "header", "headers", "timeout", "bearer_auth", "version"):
                    ck.violation("R1", f"builder-method:{d}", sp(B, bb), f"unexpected RequestBuilder method {d}", fn=short)

        # ---------------- R2
        if len(auths) != 1:
            ck.violation("R2", f"basic_auth:count={len(auths)}", fb["span"], f"{len(auths)} basic_auth calls (expected exactly one)", fn=short)
        elif send:
            abb, at = auths[0]
            # find the switch on discriminant(credentials)
            some_targets = []
            for i in sorted(B.reach):
                t = B.term(i)
                if t.get("k") != "switch":
                    continue
                for o in M.trace(B, t["discr"]):
                    if o.kind == "discr":
                        po = M.trace_place(B, o.place)
                        if po and all(x.kind == "upvar" and x.name == "credentials" and not x.fields() for x in po):
                            for v, tgt in t["targets"]:
                                if v == 1:
                                    some_targets.append((i, tgt, t["otherwise"]))
            if len(some_targets) != 1:
                ck.violation("R2", "credentials-test", sp(B, abb),
                             f"expected exactly one test of the `credentials` option, found {len(some_targets)}", fn=short)
            else:
                sw, some_bb, none_bb = some_targets[0]
                ok = True
                if not B.dominates(some_bb, abb):
                    ok = False
                    ck.violation("R2", "auth-outside-some", sp(B, abb),
                                 "basic_auth is not confined to the Some arm of the credentials test (credentials sent or invented when none configured)", fn=short)
                if send[0] in B.reachable_from(some_bb, avoid=[abb]):
                    ok = False
                    ck.violation("R2", "some-without-auth", sp(B, sw),
                                 "the request can be sent on the Some(credentials) arm without basic_auth", fn=short)
                if abb in B.reachable_from(none_bb):
                    ok = False
                    ck.violation("R2", "auth-on-none", sp(B, abb), "basic_auth is reachable from the None arm", fn=short)

                def cred_field(operand, idx):
                    os_ = M.trace(B, operand, H.FLOW_IDENTITY)
                    return bool(os_) and all(o.kind == "upvar" and o.name == "credentials" and o.fields() == ["0", str(idx)] for o in os_)

                u_ok = cred_field(at["args"][1], 0)
                # password: Some(<field 1>)
                p_ok = False
                for o in M.trace(B, at["args"][2], H.FLOW_IDENTITY):
                    if o.kind == "aggregate" and o.rv.get("variant") == "Some":
                        p_ok = cred_field(o.rv["ops"][0], 1)
                if not (u_ok and p_ok):
                    ok = False
                    ck.violation("R2", "auth-operands", sp(B, abb),
                                 "basic_auth does not receive (credentials.0, Some(credentials.1)) in that order", fn=short)
                # the authed builder must be the one reaching send on that arm
                if abb not in _steps_of(B, send[1]["args"][0]):
                    ok = False
                    ck.violation("R2", "auth-dropped", sp(B, abb), "the builder returned by basic_auth does not reach send", fn=short)
                if ok:
                    ck.ok("R2", "auth-iff-configured", sp(B, abb), "basic_auth(user, Some(pass)) exactly on the Some arm, result sent", fn=short)

        # ---------------- R3 / R4
        # what the function can return as its value: `Ok(payload)` aggregates, or the Result of a call handed on as it is (possibly
        # through map_err); looked at through inlined helpers and awaited local async fns
        ok_blocks = []      # (block, payload operand | None, producing call term | None)
        ret_ident = H.FLOW_IDENTITY + ("Result::<T, E>::map_err",)

        def classify_return(i, rv, spn):
            if rv["k"] == "aggregate" and rv.get("variant") == "Ok":
                ok_blocks.append((i, rv["ops"][0], None))
                return
            if rv["k"] == "aggregate" and rv.get("variant") == "Err":
                return
            if rv["k"] == "use":
                for o in M.trace(B, rv["op"], ret_ident):
                    if o.kind == "aggregate" and o.rv.get("variant") == "Ok" and not o.proj:
                        ok_blocks.append((o.bb, o.rv["ops"][0], None))
                    elif o.kind == "aggregate" and o.rv.get("variant") == "Err":
                        continue
                    elif o.kind == "call" and (M.Body.callee_decl(o.term) or "").endswith("FromResidual::from_residual"):
                        continue
                    elif o.kind == "call" and not o.proj:
                        ok_blocks.append((o.bb, None, o.term))
                    else:
                        ck.undecided("R4", f"return-shape:{o.kind}", spn, f"a returned value of unrecognised origin: {o!r}", fn=short)
                return
            ck.undecided("R4", f"return-shape:{rv['k']}", spn, "return value assigned in an unrecognised way: " + pp.rvalue(rv), fn=short)
        for i in sorted(B.reach):
            for s in B.blocks[i]["stmts"]:
                if s["k"] == "assign" and s["p"]["l"] == 0 and not s["p"].get("proj"):
                    classify_return(i, s["rv"], s.get("sp", "?"))
            t = B.term(i)
            if t.get("k") == "call" and t["dest"]["l"] == 0 and not t["dest"].get("proj"):
                d = M.Body.callee_decl(t) or ""
                if d.endswith("FromResidual::from_residual"):
                    continue
                if d.endswith("Result::<T, E>::map_err"):
                    classify_return(i, {"k": "use", "op": t["args"][0]}, sp(B, i))
                else:
                    ok_blocks.append((i, None, t))
        ok_blocks = list({(b_, id(p_), id(t_)): (b_, p_, t_) for b_, p_, t_ in ok_blocks}.values())
        ck.floor("R3", "Ok return sites", len(ok_blocks), 1)
        gates = B.calls_to("reqwest::Response::error_for_status_ref", "reqwest::Response::error_for_status")
        # a private helper of the same module that is nothing but a status gate on its parameter counts as the gate
        for hbb, ht in B.calls():
            callee = M.Body.callee(ht) or ""
            hb = F.lib.body(callee)
            if hb is None or not hb.get("mir") or not callee.startswith("model::helpers_content") or hb.get("closure"):
                continue
            if _is_status_gate(F, hb):
                gates.append((hbb, ht))
        gate_conts = []
        for bb, t in gates:
            flow = M.result_flow(B, bb, t)
            kinds = {k for k, _ in flow}
            recv_ok = send is not None and any(s[0] == send[0] for s in H.origin_calls(B, t["args"][0]))
            passed_on = bool(kinds) and kinds <= {"propagated", "returned", "mapped:propagated", "mapped:returned"}
            if passed_on and recv_ok:
                gate_conts.append(_gate_success(B, bb, t))
            elif not passed_on:
                ck.violation("R3", "gate-not-propagated", sp(B, bb),
                             f"the result of the status check is {sorted(kinds)} instead of being propagated with `?`", fn=short)
            else:
                ck.violation("R3", "gate-wrong-response", sp(B, bb), "the status check is not applied to the response returned by send", fn=short)
        for obb, payload, rcall in ok_blocks:
            if any(c is not None and B.dominates(c, obb) for c in gate_conts):
                ck.ok("R3", "status-gate", sp(B, obb), "Ok return dominated by the success continuation of the propagated status check", fn=short)
            else:
                ck.violation("R3", "status-gate", sp(B, obb),
                             "an Ok return is reachable without passing the (propagated) HTTP status check: 4xx/5xx replies can yield a value", fn=short)
            # R4 payload provenance
            if rcall is not None:
                # the Result of a call is returned as it is: it must be the deserializer's
                d = M.Body.callee_decl(rcall) or ""
                good = d == "yaserde::de::from_str"
                de = rcall
                src = [(obb, d, None)]
            else:
                src = H.origin_calls(B, payload)
                good = len(src) == 1 and src[0][1] == "yaserde::de::from_str"
                de = src[0][2].term if good else None
            if good:
                tsrc = H.origin_calls(B, de["args"][0])
                good_text = len(tsrc) == 1 and tsrc[0][1] in ("reqwest::Response::text", "reqwest::Response::text_with_charset")
                resp_ok = False
                if good_text:
                    rsrc = H.origin_calls(B, tsrc[0][2].term["args"][0])
                    resp_ok = send is not None and all(r[0] in ([send[0]] + [g[0] for g in gates]) for r in rsrc) and bool(rsrc)
                # every fallible step must have been propagated and dominate the Ok
                steps_ok = True
                for (cbb, ct) in ([(src[0][0], de)] if rcall is None else []) + ([(tsrc[0][0], tsrc[0][2].term)] if good_text else []) + ([send] if send else []):
                    c = _await_aware_cont(B, cbb, ct)
                    if c is None or not B.dominates(c, obb):
                        steps_ok = False
                if good_text and resp_ok and steps_ok:
                    ck.ok("R4", "payload-provenance", sp(B, obb), "Ok(payload): payload = Ok of from_str(text().await?) of the sent response; all steps propagated", fn=short)
                else:
                    ck.violation("R4", "payload-provenance", sp(B, obb),
                                 f"the Ok payload is parsed from something other than the awaited text of the sent response, or a fallible step is not "
                                 f"propagated before the Ok (text={good_text}, response={resp_ok}, propagated={steps_ok})", fn=short)
            else:
                ck.violation("R4", "payload-provenance", sp(B, obb),
                             "the Ok payload does not originate (only) from yaserde::de::from_str: " + ", ".join(str(s[1]) for s in src), fn=short)
        # once the request was sent, the reply is judged by its status and by the deserializer, nothing else: an error that the helper
        # builds by its own judgement of the reply (a text search in the body, a header test, ..) turns valid replies into errors
        if send is not None:
            after_send = B.reachable_from(send[0])
            own_errs = []
            for i in sorted(after_send):
                if i == send[0]:
                    continue
                for st_ in B.blocks[i]["stmts"]:
                    if st_["k"] == "assign" and st_["rv"]["k"] == "aggregate" and str(st_["rv"].get("adt", "")).endswith("result::Result") \
                            and st_["rv"].get("variant") == "Err" and not B.blocks[i].get("from_std"):
                        # (the Err of a `?` is made by from_residual / map_err, not by an aggregate in this body)
                        tl = st_["p"]["l"]
                        if _err_of_a_step(B, st_["rv"]):
                            continue      # the error of a step, re-wrapped by hand (`Err(e) => Err(SoapError::Http(e))`)
                        if tl == 0 or B.locals[tl].get("inl_ret") or any(
                                s2["k"] == "assign" and s2["p"]["l"] == 0 and s2["rv"]["k"] == "use" and s2["rv"]["op"].get("p", {}).get("l") == tl
                                for j in sorted(after_send) for s2 in B.blocks[j]["stmts"]):
                            own_errs.append((i, st_))
            seen_sp = set()
            for i, st_ in own_errs:
                sp_ = st_.get("sp") or sp(B, i)
                if sp_ in seen_sp:
                    continue
                seen_sp.add(sp_)
                ck.violation("R4", "reply-judged-by-helper", sp_,
                             "after the request was sent the helper returns an Err that it builds itself (not the error of the status check, of "
                             "reading the body or of the deserializer): a 2xx reply holding the response envelope can be reported as a failure", fn=short)
            if not own_errs:
                ck.ok("R4", "reply-judged-by-status-and-deserializer", fb["span"], "after the send, every Err comes from the transport, the status check or the "
                      "deserializer", fn=short)
        bad = [(bb, t) for bb, t in B.calls() if any((M.Body.callee_decl(t) or "").endswith(x) for x in DEFAULTING)]
        for bb, t in bad:
            ck.violation("R4", f"defaulting:{M.Body.callee_decl(t)}", sp(B, bb),
                         f"{M.Body.callee_decl(t)} in the exchange function: a failed step can be turned into a value or a panic", fn=short)
        if not bad:
            ck.ok("R4", "no-defaulting", fb["span"], "no unwrap_or*/ok()/default()/unwrap on the exchange path", fn=short)
        if not first:
            return      # (what follows is about the module as a whole: once)
        # ---- R5: a failed exchange is reported as an error — so nothing the exchange reaches inside the emitted module may panic
        # instead (an index / slice by byte position, unwrap, arithmetic that can overflow, ..): the error path is code too
        from engine.rulekit import scans
        g = scans.call_graph(F.lib)
        roots = [b_["path"] for b_ in senders] + H.entry_fns(F) + [e_ + "::{closure#0}" for e_ in H.entry_fns(F)]
        reach = {p_ for p_ in scans.reachable(g, roots) if "helpers_content" in p_}
        # conversions into the module's error type run on the `?` of the exchange
        reach |= {b_["path"] for b_ in F.lib.bodies if b_["path"].startswith("<model::helpers_content::error::")
                  and (" as std::convert::From<" in b_["path"] or " as std::fmt::Display>" in b_["path"])}
        reach |= {p_ for p_ in scans.reachable(g, sorted(reach)) if "helpers_content" in p_}
        reach = {p_ for p_ in reach if "CheckRestrictions" not in p_ and "::restrictions::" not in p_ and "multi_ref" not in p_}
        ck.count("R5:functions of the emitted module reachable from the exchange", len(reach))
        hits = [h for h in scans.scan_panics(F.lib) if h[0] in reach]
        for (pfn, site, what, n, pbb) in hits:
            ck.violation("R5", f"panic:{pfn.replace('model::helpers_content::', '')}:{what.rsplit('::', 1)[-1]}#{n}", site,
                         f"{pfn} (reached from the exchange) can panic here ({what}): for some reply or failure the call neither returns the "
                         f"response nor an error", fn=short)
        if not hits:
            ck.ok("R5", "no-panic", fb["span"], f"none of the {len(reach)} functions of the emitted module that the exchange reaches holds a panic-family "
                  f"operation (index/slice, unwrap/expect, overflow assertion, explicit panic)", fn=short)
        ck.floor("R5", "functions of the emitted module reachable from the exchange", len(reach), 3)
        # "to the service address": the helper posts to the `url` it is handed (R1); what the generated method hands it is the location
        # written into the client's constructor, and that is the address of the port the client's binding belongs to (decided by C05.R5)
        if not getattr(ck, "rule_", None):       # (not when this run is itself a part of C05's)
            from rules import c05 as C05
            from rules import c04 as C04
            C05.run(C04._Sub(ck, "R1", lambda key: key == "location" or key.startswith("location"), only_rules=("R5",)), F)


    for i_, fb_ in enumerate(senders):
        judge(ck if i_ == 0 else _Keyed(ck, "@" + fb_["path"].replace(H.HELPERS_MOD + "::", "").split("::{closure", 1)[0]), fb_, i_ == 0)


class _Keyed:
    """the same obligations for a further sending entry function: keys carry the entry's name"""

    def __init__(self, ck, suffix):
        self.ck, self.suffix = ck, suffix
        self.rule_ = getattr(ck, "rule_", None)

    def count(self, name, n=1):
        self.ck.count(name + self.suffix, n)

    def ok(self, rule, desc, *a, **kw):
        self.ck.ok(rule, desc + self.suffix, *a, **kw)

    def violation(self, rule, desc, *a, **kw):
        self.ck.violation(rule, desc + self.suffix, *a, **kw)

    def undecided(self, rule, desc, *a, **kw):
        self.ck.undecided(rule, desc + self.suffix, *a, **kw)

    def floor(self, rule, name, count, floor, site="-"):
        self.ck.floor(rule, name + self.suffix, count, floor, site)


STEP_ERRORS = ("reqwest::Response::error_for_status_ref", "reqwest::Response::error_for_status", "reqwest::Response::text",
               "reqwest::Response::text_with_charset", "reqwest::Response::bytes", "yaserde::de::from_str", "yaserde::ser::to_string",
               "reqwest::RequestBuilder::send", "future::Future::poll", "CheckRestrictions::check_restrictions")


def _err_of_a_step(B, rv, depth=0):
    """the payload of a hand-built `Err(..)` is (a wrapping of) the error that one of the steps of the exchange returned"""
    ops = rv.get("ops") or []
    if not ops or depth > 4:
        return False
    for op in ops:
        if op.get("k") == "const":
            return False
        origins = M.trace(B, op, H.FLOW_IDENTITY + ("convert::From::from", "convert::Into::into"))
        if not origins:
            return False
        for o in origins:
            if o.kind == "call" and (M.Body.callee_decl(o.term) or "").endswith(STEP_ERRORS):
                continue
            if o.kind == "aggregate" and o.rv.get("ak") == "adt" and _err_of_a_step(B, o.rv, depth + 1):
                continue
            return False
    return True


def _is_status_gate(F, hb):
    """`fn h(resp: &Response, ..) -> Result<..>`: a propagated error_for_status[_ref] on the parameter dominates every Ok return,
    and the function performs no other reqwest call."""
    HB = M.Body(hb)
    inner = HB.calls_to("reqwest::Response::error_for_status_ref", "reqwest::Response::error_for_status")
    if len(inner) != 1:
        return False
    ibb, it = inner[0]
    src = M.trace(HB, it["args"][0], M.IDENTITY_CALLS)
    if not (src and all(o.kind == "arg" for o in src)):
        return False
    if {k for k, _ in M.result_flow(HB, ibb, it)} - {"propagated", "returned"}:
        return False
    others = [M.Body.callee_decl(t) for _, t in HB.calls() if "reqwest::" in (M.Body.callee_decl(t) or "") and (M.Body.callee_decl(t) or "") != M.Body.callee_decl(it)]
    if others:
        return False
    cont = M.success_continuation(HB, ibb, it)
    for i in sorted(HB.reach):
        for st in HB.blocks[i]["stmts"]:
            if st["k"] == "assign" and st["p"]["l"] == 0 and st["rv"]["k"] == "aggregate" and st["rv"].get("variant") == "Ok":
                if cont is None or not HB.dominates(cont, i):
                    return False
    return True


def _gate_success(B, bb, t):
    """Block reached only when the status check succeeded: the Continue arm of its `?`, or the Ok arm of a hand-written match on
    it; through the return of an inlined helper, the continuation of the `?` applied to the helper's result."""
    c = M.success_continuation(B, bb, t)
    if c is not None:
        # `?` inside an inlined helper: the helper returns Err there, so the caller continues on the helper's Ok
        for bb2, t2 in B.calls_to("ops::Try::branch"):
            if M.try_arms(B, bb2, t2)[0] == c:
                d = M._try_dest(B, bb2, t2)
                if d not in (None, 0) and B.locals[d].get("inl_ret"):
                    c2 = M._succ_cont_local(B, d, set())
                    if c2 is not None:
                        return c2
        return c
    dest = t["dest"]["l"]
    for (ubb, where, j, x) in M.uses_of_local(B, dest):
        if where == "stmt" and x["rv"]["k"] == "discr" and not x["p"].get("proj"):
            ret = M._match_propagates(B, dest, ubb, x["p"])
            if ret is None:
                continue
            if ret != 0 and B.locals[ret].get("inl_ret"):
                # the match sits in an inlined helper that returns Err on the error arm: the helper's own result is Ok only when the
                # check succeeded, so what counts is where the caller continues on the helper's Ok
                c = M._succ_cont_local(B, ret, set())
                if c is not None:
                    return c
            for y in sorted(B.reachable_from(ubb)):
                sw = B.term(y)
                if sw.get("k") == "switch" and sw["discr"].get("k") in ("copy", "move") and sw["discr"]["p"]["l"] == x["p"]["l"]:
                    ok_arm = [b2 for v, b2 in sw["targets"] if v == 0]
                    if not ok_arm and [v for v, _ in sw["targets"]] == [1]:
                        ok_arm = [sw["otherwise"]]      # `if let Err(e) = check { return Err(..) }`: everything else is the Ok arm
                    if ok_arm:
                        return ok_arm[0]
                    break
    # `helper(resp)?` with the helper inlined and the check propagated with `?` inside it: the success continuation found above
    # lies inside the helper; the caller continues on the helper's Ok
    return None


def _await_aware_cont(B, bb, t):
    """Success continuation of a fallible call whose result may be awaited before `?`."""
    c = M.success_continuation(B, bb, t)
    if c is not None:
        return c
    # awaited: find the Try::branch whose argument originates from this call through the poll loop
    for bb2, t2 in B.calls_to("ops::Try::branch"):
        for o in M.trace(B, t2["args"][0], H.FLOW_IDENTITY):
            if o.kind == "call" and o.bb == bb:
                cont, brk = M.try_arms(B, bb2, t2)
                if cont is not None and M._try_propagates(B, bb2, t2):
                    return cont     # (a copy of the `?` specialised to the failing path has no continue arm: not that one)
    return None
