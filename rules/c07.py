"""C07 — declared facets are enforced at every depth and before anything is sent."""
from engine.rulekit import hir as Hh
from engine.rulekit import mir as M
from rules import common_helper as H
from rules import templates as T

IO_CALLS = ("yaserde::ser::to_string", "reqwest::Client::post", "reqwest::RequestBuilder::body",
            "reqwest::RequestBuilder::basic_auth", "reqwest::RequestBuilder::send", "reqwest::Client::new",
            "reqwest::Client::execute", "reqwest::Client::get", "reqwest::Client::request")
CHECK = "restrictions::CheckRestrictions::check_restrictions"

FACETS = {  # helper Restrictions field -> XSD facet element name
    "min_inclusive": "minInclusive", "max_inclusive": "maxInclusive", "min_exclusive": "minExclusive",
    "max_exclusive": "maxExclusive", "length": "length", "min_length": "minLength", "max_length": "maxLength",
    "enumeration": "enumeration",
}


def sp(B, bb):
    return B.term(bb).get("sp", "?")


def rule_check_first(ck, F):
    senders = H.sender_fn(F)
    if not senders:
        ck.undecided("R1", "sender", "-", "no sending function was found in the helper module")
        return
    # every entry function that sends is judged on its own (see C16)
    from rules import c16 as C16
    senders = sorted(senders, key=lambda b_: (0 if "client" in (b_.get("upvars") or []) else 1, b_["path"]))

    def judge(ck, fb):
        # the sender with the module's private helpers taken in (sync helpers, awaited private async fns); other entry functions stay calls
        from engine.rulekit import inline as I
        B = M.Body(I.Inliner(F.lib, stop=lambda p: "CheckRestrictions" in p or H.is_entry(F, p)).body(fb))
        short = fb["path"].replace(H.HELPERS_MOD + "::", "")
        checks = B.calls_to(CHECK)
        good = []
        for bb, t in checks:
            a0 = M.trace(B, t["args"][0], H.FLOW_IDENTITY)
            is_req = bool(a0) and all(o.kind == "upvar" and o.name == "req" for o in a0)
            if not is_req:
                continue
            flow = {k for k, _ in M.result_flow(B, bb, t)}
            if flow != {"propagated"}:
                ck.violation("R1", "check-not-propagated", sp(B, bb),
                             f"the restriction check on the request is {sorted(flow)}, not propagated with `?`: a failing check does not stop the call", fn=short)
                continue
            # the second argument must be None: the envelope's own (generated) facets apply
            a1 = M.trace(B, t["args"][1])
            none = bool(a1) and all(o.kind == "aggregate" and o.rv.get("variant") == "None" for o in a1)
            if not none:
                ck.violation("R1", "check-restrictions-arg", sp(B, bb), "the request is checked against something other than `None`", fn=short)
            good.append((bb, t, M.success_continuation(B, bb, t)))
        if not good:
            ck.violation("R1", "no-check", fb["span"],
                         "no propagated `req.check_restrictions(None)?` in the sending function: restrictions are not enforced before sending", fn=short)
            return
        conts = [c for _, _, c in good if c is not None]
        n = 0
        for bb, t in B.calls():
            d = M.Body.callee_decl(t) or ""
            if any(d == x or d.endswith(x) for x in IO_CALLS):
                n += 1
                if any(B.dominates(c, bb) for c in conts):
                    ck.ok("R1", f"check-before:{d}", sp(B, bb), f"{d} is dominated by the success continuation of the restriction check", fn=short)
                else:
                    ck.violation("R1", f"check-before:{d}", sp(B, bb),
                                 f"{d} is reachable before (or without) a successful restriction check", fn=short)
        for i in sorted(B.reach):
            if B.term(i).get("k") == "yield":
                n += 1
                if not any(B.dominates(c, i) for c in conts):
                    ck.violation("R1", "check-before:await", sp(B, i), "an await point is reachable before the restriction check succeeded", fn=short)
        ck.floor("R1", "I/O call sites and await points dominated by the check", n, 3)

    for i_, fb_ in enumerate(senders):
        judge(ck if i_ == 0 else C16._Keyed(ck, "@" + fb_["path"].replace(H.HELPERS_MOD + "::", "").split("::{closure", 1)[0]), fb_)
    # the convenience wrapper (constructs a Client and delegates) must not do I/O of its own
    for b in F.lib.bodies:
        p = b["path"]
        if not p.startswith(H.HELPERS_MOD) or not b.get("mir") or any(b is s_ for s_ in senders) or not b.get("closure"):
            continue
        WB = M.Body(b)
        called = [s_ for s_ in senders if WB.calls_to(s_["path"].replace("::{closure#0}", ""))]
        if not called:
            continue
        fb = called[0]
        allowed = ("reqwest::Client::new", "IntoFuture::into_future", "Pin::<Ptr>::new_unchecked", "future::get_context",
                   "future::Future::poll", "ops::Deref::deref", fb["path"].replace("::{closure#0}", ""))
        bad = [M.Body.callee_decl(t) for _, t in WB.calls() if not any((M.Body.callee_decl(t) or "").endswith(a) for a in allowed)]
        wshort = p.replace(H.HELPERS_MOD + "::", "")
        if bad:
            ck.violation("R1", f"wrapper-extra-calls", b["span"], f"{wshort} does more than construct a client and delegate: {bad}", fn=wshort)
        else:
            ck.ok("R1", "wrapper-delegates", b["span"], f"{wshort} only constructs a Client and delegates to the checked sender", fn=wshort)


def run(ck, F):
    ck.explanation = (
        "Three agreeing pieces are decided statically: (R1) on the MIR of the helper's sending coroutine, the propagated "
        "restriction check dominates serialization, every reqwest call and every await point; (R3,R5) on the output grammar of "
        "the struct/envelope emitters, the loop emitting `self.<f>.check_restrictions(..)?;` ranges over the same collection as "
        "the loop emitting the members and every emitted call is propagated; (R4,R6) the facet table XSD name -> model field -> "
        "emitted helper field is extracted from the typed HIR of build_restrictions and of the Restrictions emitter and compared "
        "row by row. Nothing is executed.")
    ck.assumptions = ["the emitted helper text is the analysed helper module (C01.R2)",
                      "leaf checks behave as decided by C06"]
    ck.rule("R1", "check first: `req.check_restrictions(None)?` is propagated and its success continuation dominates to_string, "
                  "post, body, basic_auth, send and every await point; the Client-constructing wrapper only delegates")
    ck.rule("R2", "container delegation: the CheckRestrictions impls of Vec / Option / MultiRef call the check on every value they hold, "
                  "on every path that returns Ok, and pass the incoming restriction set on")
    ck.rule("R3", "per-member delegation: in every struct/header/envelope template the loop emitting the check calls ranges over "
                  "the same place as the loop emitting the members, unfiltered, and each call is emitted with `?` or returned")
    ck.rule("R4", "facet table: XSD facet name -> model field -> emitted helper field agree for all 8 facets; none crossed or dropped")
    ck.rule("R5", "the incoming `restrictions` parameter reaches the delegated call(s) of every emitted impl")
    ck.rule("R6", "facet literals emitted into Option<i32>/Option<usize> positions are numerically validated")
    rule_check_first(ck, F)
    # every depth: the containers a member can be wrapped in (Vec, Option, MultiRef) hand the check on to every value they hold,
    # whatever restriction set they were called with (generated structs call with None): the wrapper obligations of C06, decided here
    from rules import c04 as C04
    from rules import c06 as C06
    # ... and a facet is enforced only if the carrier's check decides as the facet says for every value (a bound compared with part
    # of the value lets the rest through): the decisions of C06 are obligations of this property as well
    sub = C04._Sub(ck, "R2", lambda key: True)
    C06.run(sub, F)
    T.c07_template_rules(ck, F)
