#!/bin/bash
# usage: tools/runall.sh [quick|thorough]  - every property check on the current tree, in parallel; prints one line each
TIER=${1:-quick}
cd "$(dirname "$0")/.."
./check C01 $TIER >/dev/null 2>&1  # warms the fact cache once (the other checks share it)
for i in $(seq -w 1 19); do
  ( out=$(./check C$i $TIER 2>&1); rc=$?; echo "C$i rc=$rc $(echo "$out" | grep -a 'obligations:' | tail -1) $(echo "$out" | grep -a -c '^KNOWN-FINDING') known" ) &
done | sort
wait
