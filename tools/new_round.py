#!/usr/bin/env python3
"""Sets up a round of independent sub-agent work under /tmp (nothing of it is needed by a registered command):

  tools/new_round.py seeds  <dir> <round-no>        four groups a-d, each with a scratch worktree of /repo and a prompt.txt
  tools/new_round.py benign <dir> <set-letter> <style-key>

The prompts give a sub-agent the property texts (seeds) or a list of refactoring techniques (benign), its own worktree and
nothing from /verif. The results are confirmed with tools/seedN_verify.sh / tools/benign_try.py and archived under seeded/ and
selftest/benign/. Remove the worktrees afterwards: git -C /repo worktree remove --force <dir>/<g>/wt; git -C /repo worktree prune.
"""
import json
import os
import re
import subprocess
import sys

SEED_TPL = '''You are helping to evaluate a verification effort for the Rust project "zeep" (a small CLI + library that reads XSD/WSDL files and generates yaserde-annotated Rust structs plus async SOAP client code). The verification is a STATIC ANALYSIS of the project's source (no tests are run, nothing is executed). Your job is to play the part of a developer who introduces a subtle regression that such an analysis is likely to overlook.

Your own scratch git worktree of the project is at __WT__ (detached HEAD, clean). Work ONLY there and under __OUT__. Never touch /repo or /verif, never commit, never run `git stash`. The machine is offline: use `cargo ... --offline` and set `export CARGO_TARGET_DIR=__TARGET__ CARGO_NET_OFFLINE=true` in every shell command (shell state does not persist between your commands). The existing test suite is `cargo test --workspace --offline` (32 tests in zeep-lib), run from the worktree root. The CLI crate is `zeep/` (binary `zeep`, see zeep/src/main.rs for its arguments), the library is `zeep-lib/`; zeep-lib/src/model/helpers_content.rs is the text of the helper module that is copied into every generated file.

IMPORTANT practical constraint: keep every single message you write short: do not paste whole source files or long outputs into your messages, read files in slices, pipe command output through `head`/`tail`/`grep`, and write long content (patches, scripts, notes) to files with your tools rather than printing it.

For EACH of these properties (full text, anchors and the reason why tests cannot settle it are in the JSON files): __PROPS__
produce ONE change to the project's source that
  1. breaks that property in the sense of its `statement` (a real behavioural regression a user could be hit by),
  2. still compiles, and the existing 32 tests still pass unedited,
  3. is realistic: something a plausible refactoring, "optimisation", feature addition, clean-up or careless fix would introduce, in 5-80 changed lines; not a blatant deletion of the relevant code and not a comment/marker,
  4. needs something specific in order to manifest (a particular shape of schema, a second namespace, a rare character, an error path, a particular order of files, a concurrent caller, ...),
  5. is DIFFERENT IN KIND AND IN PLACE from these earlier regressions already collected for the same property (names only): __EARLIER__
  6. __HARD__

Read the source first. Vary the mechanism between your properties.

Deliverables, per property Cnn, under __OUT__/Cnn/ :
  - patch.diff : `git diff` of your worktree against HEAD (apply with `git apply`), containing only the regression (no tests, no demo files).
  - demo/run.sh : a bash script, run from the worktree root, that demonstrates the behaviour: it must exit 0 on the unmodified project (property holds for the demonstrated input) and exit non-zero with a clear message when your patch is applied. It may build and run the CLI (`cargo run -q -p zeep --offline -- -i <file> -o <file>`), write input files it needs under demo/, compile generated code with cargo against the crates available offline (e.g. as a throw-away example or test inside zeep-lib that it copies in and removes again; if generated code cannot be compiled offline, inspect the generated text instead). It must leave the worktree clean (git status empty) when it finishes and must not need the network. Keep its run time under ~3 minutes.
  - NOTES.md : 5-15 lines: what the change is, why it breaks the property, what is needed for it to manifest, why a static analysis is likely to miss it, what you ran (commands + observed results, including the test-suite result with the patch applied).
After finishing a property, restore the worktree (`git checkout -- . && git clean -fd`) before starting the next, so that each patch applies to pristine HEAD on its own.

Verify your work before reporting: for each property run (a) demo on clean tree -> exit 0, (b) apply patch, run the 32 tests -> all pass, (c) demo with the patch -> non-zero, (d) restore. If you cannot make a property's change satisfy all of 1-6 after a real effort, say so in NOTES.md and deliver what you have. If, while looking for inputs, you notice that the UNMODIFIED project already breaks one of the properties for some input, describe that input in __OUT__/BASE_DEFECTS.md (input, command, what comes out, what should) - that is valuable too. Report at the end a one-line summary per property.
'''

HARD = {
    # round 5
    "anchors": "is hard to see for a static analysis that looks at the code the property's `anchors` name: put the fault where such an analysis is unlikely to look or to understand — in data rather than in control flow (a table row, a constant, a format string, a default), in a different function or module than the anchors (a caller, a callee, a trait impl, a Drop / Display / From impl, a macro, a generic helper, a closure stored in a struct, an iterator adaptor), in the interplay of two places that are each fine on their own, or in a condition that is almost always true. Do not rely on obfuscation that no maintainer would write.",
    # round 6
    "meaning": "(this round) the analysis has become broad: it follows helpers, closures, tables of function pointers, trait objects and conversions, and it knows the rules that the earlier regressions above gave rise to. Look for what it still cannot know: the MEANING of values (a wrong constant, unit, index, boundary, default, order of operands, off-by-one), library semantics it has to trust (what a std / roxmltree / yaserde / reqwest / Inflector call really does for unusual inputs), feature interactions between two correct parts, and rarely-taken paths. The change is hard to see for a static analysis that looks at the code the property's `anchors` name. Do not rely on obfuscation that no maintainer would write.",
    # round 7
    "semantics": "(this round) the analysis is broad (it follows helpers, closures, tables, trait objects, conversions; it evaluates small functions over finite domains; it knows the rules the earlier regressions gave rise to). Aim at what a rule-based analysis of THIS code base is least likely to have a rule for: (a) XML Schema / WSDL / SOAP SEMANTICS the code handles implicitly (defaults of absent attributes, `use=`, `nillable`, `form`, `mixed`, `abstract`, `substitutionGroup`, `xs:any`, `xs:list` / `xs:union`, `soap:header` parts, `style=rpc|document`, one-way operations, several ports / bindings / services, imports vs includes, chameleon includes, relative `schemaLocation`s) where a small well-meant generalisation or restriction changes what is generated for inputs that used to work; (b) the most recently changed code: the default-namespace handling in model/doc.rs + model/node.rs + `as_rust_type` in model/field.rs, the `ref=` branch of `Field::try_from_node`, `as_xml_prefix`, the reading of `<types>` sections in reader.rs; (c) state that is carried from one part of a run to a later one (the current target namespace, the registry of namespaces, flags on `Files`, the list of names being resolved) being left changed on a path that usually is not taken; (d) a semantic slip in the emitted helper module (helpers_content.rs) that still type-checks. Do not rely on obfuscation that no maintainer would write.",
}

HARD["second-order"] = ("(this round) the analysis is broad and deep: it follows helpers, closures, trait objects, tables, conversions, Display adaptors; it evaluates small "
    "functions; it has a rule for each of the earlier regressions listed above and for their close relatives. Aim at SECOND-ORDER effects and at places no property anchor names: "
    "(a) an invariant that one module establishes and another silently relies on (the order of `namespaces` vs `target_namespaces`, what `in_namespace` / `target_namespace` "
    "hold for components reached through a lookup, which keys `Files` is asked with, what `resolving` holds during nested lookups, which documents `extend` has merged when a "
    "lookup runs) - change the establishing side in a way that looks harmless there; (b) error paths: a `?` moved across a state change, an error turned into a default with "
    "`.ok()` / `unwrap_or_default()` / `if let Ok`, a `continue` where a `return Err` was, a partial result kept after a failure; (c) the RUNTIME behaviour of generated code: "
    "what the emitted impls and helper functions do when called (Default values, Option / Vec handling in `check_restrictions`, what is sent for an absent header, credentials "
    "handling, response handling) rather than whether the text compiles; (d) numeric and boundary semantics: parsing of maxOccurs / facet values, conversions between integer "
    "widths, lengths in bytes vs characters, empty vs absent strings; (e) the command line: how input / output paths and siblings are determined. "
    "Do not rely on obfuscation that no maintainer would write.")

HARD["feature-work"] = ("(this round) the analysis is broad and deep (helpers, closures, trait objects, tables, conversions, Display adaptors, small functions evaluated; a rule for each "
    "earlier regression above and its close relatives). This round, the regression comes in as part of WELL-MEANT FEATURE WORK or a ROBUSTNESS FIX, the kind of pull request that gets merged: "
    "(a) support for something the generator ignores or rejects today (`xs:all`, `xs:attributeGroup`, `xs:group`, `default=` / `fixed=` values, `nillable`, `xs:include`, `xs:annotation/appinfo`, "
    "`xs:simpleContent`, `soap12:` bindings, faults, several `wsdl:part`s, `xs:anyAttribute`, `substitutionGroup`) implemented mostly right, where the new code path or the generalisation it needed "
    "changes the result for inputs that used to work, or is itself wrong in a corner; (b) a tolerance fix (`trim()` of attribute values, case-insensitive comparison, accepting a missing attribute, "
    "skipping a malformed component with a warning instead of failing, a retry, a fallback value, a cache, de-duplication of something that is not always a duplicate) that is too tolerant; "
    "(c) a new CLI option or environment knob whose DEFAULT path no longer behaves as before; (d) nicer generated code (derives, doc comments, `#[serde]`-like attributes, builder / `new` functions, "
    "`impl Display`, constants for enumeration values, `Default` impls) whose addition breaks the property in a corner; (e) a performance fix (memoised lookups, interned strings, parallel or lazy "
    "reading, streaming output) with a stale-cache / ordering / partial-output corner. The patch may be up to 120 changed lines; the regression inside it is what counts. "
    "Do not rely on obfuscation that no maintainer would write.")

STYLES_EXTRA = {
    "S": "Techniques for this set (one main technique per patch): API-EVOLUTION refactorings that keep behaviour: (1) newtypes for the strings that are passed around (`struct XmlName(String)`, `struct ModName(String)`, `struct Prefix(String)`) with `Deref` / `AsRef<str>` / `Display` / `From`, used in one or two structs and adapted at the call sites; (2) replace a pair or triple of `bool` fields / parameters by a small enum (`Cardinality::{One, Optional, Many}`, `FieldKind::{Element, Attribute}`) with helper methods that give back the old booleans, keeping every decision the same; (3) a builder or constructor function for a struct that is now built with a struct literal in several places (`Field::new(..).optional(..).repeated(..)`), or the reverse; (4) split a trait or add a small trait (`trait HasXmlName { fn xml_name(&self) -> Option<&str> }`, `trait Emit`) and move free functions into impls / default methods, called statically or through `&dyn`; (5) change a function's return shape without changing what callers observe: `Option<Result<T>>` <-> `Result<Option<T>>` with `transpose`, `Vec<T>` <-> `impl Iterator<Item = T>` collected by the caller, out-parameters (`&mut Vec<Field>`) <-> returned values appended by the caller in the same order; (6) move code between modules / files (a `naming` module for the case and keyword functions, a `lookup` module for the component search, a `templates` module for writer functions) with re-exports so that paths used elsewhere keep working; (7) the emitted helper module helpers_content.rs: introduce a small private struct or trait there (e.g. `struct Bound<'a>(&'static str, Option<i32>, fn(i128, i128) -> bool)`, a `trait Facet`) and route the existing checks through it with identical decisions and messages, or make `send_soap_request*` share code through a private generic function.",
    "T": "Techniques for this set (one main technique per patch): DATA-FLOW RESHAPING that keeps behaviour: (1) compute values earlier or later where that is equivalent (hoist pure computations out of loops and branches, sink them into the only branch that uses them), introduce or remove intermediate `let`s, shadowing, destructuring of `self` / parameters at the top of a function; (2) pass a small context struct or tuple instead of several parameters, or explode such a struct into parameters; reorder parameters; turn methods into associated / free functions and back; (3) merge two passes over a collection into one pass that fills two results, or split one pass into two, where the effects of the rounds are independent; replace index loops by `zip` / `enumerate` / `windows` and back; (4) replace `match` on `Option` / `Result` by `?` in a helper function or closure that returns `Option` / `Result`, `let .. else`, `map_or_else`, `ok_or_else(..)?.`, `and_then` chains - and at least one patch in the reverse direction (chains unfolded into explicit `match` with early returns); (5) strings: build with `format!` vs `push_str` vs `write!` into a `String` vs `concat` / `join` of parts vs `std::fmt::Display` impl on a small struct; templates split differently into `write!` calls (several holes per call, one call per line, one call for a whole item); (6) collections: `Vec` + `contains` <-> `BTreeSet` where only membership is asked, `Vec<(K, V)>` <-> map with keyed lookup only, sort-free dedup in insertion order kept as it is; pre-collect into a `Vec` vs iterate lazily where no side effect in between depends on it; (7) in zeep/src/main.rs and zeep-lib/src/utils.rs: the same kinds of reshaping for argument handling, path computations and the order of purely local steps, keeping which files are read / written, when, and what is printed.",
}
STYLES_LATE = True

BENIGN_TPL = '''You are helping to evaluate a verification effort for the Rust project "zeep" (a small CLI + library that reads XSD/WSDL files and generates yaserde-annotated Rust structs plus async SOAP client code). The verification is a STATIC ANALYSIS of the project's source that has to stay silent when the behaviour does not change. Your job is to play the part of a maintainer who REFACTORS code WITHOUT changing behaviour, in ways that are legitimate but hard for a static analysis to see through.

Your own scratch git worktree of the project is at __WT__ (detached HEAD, clean). Work ONLY there and under __OUT__. Never touch /repo or /verif, never commit, never run `git stash`. The machine is offline: use `cargo ... --offline` and set `export CARGO_TARGET_DIR=__TARGET__ CARGO_NET_OFFLINE=true` in every shell command (shell state does not persist between your commands). The existing test suite is `cargo test --workspace --offline` (32 tests in zeep-lib), run from the worktree root. The CLI crate is `zeep/` (see zeep/src/main.rs), the library `zeep-lib/`; zeep-lib/src/model/helpers_content.rs is the text of the helper module copied into every generated file (it is also compiled as a module of zeep-lib).

IMPORTANT practical constraint: keep every single message you write short: do not paste whole source files or long outputs into your messages, read files in slices, pipe command output through `head`/`tail`/`grep`, and write long content (patches, notes) to files with your tools rather than printing it.

Produce 7 independent refactoring patches, each applying to pristine HEAD on its own. __STYLE__

Each patch must
  1. preserve behaviour exactly for every input: same generated text byte for byte, same errors in the same situations, same panics (none added, none removed), same order of effects (file reads/writes, network);
  2. be a change a real maintainer could make and defend in review (no obfuscation for its own sake); 40-250 changed lines each; vary the style between patches;
  3. compile without new warnings being errors and keep all 32 tests passing (tests may only be touched where a rename / move forces it: adjust paths and names, nothing else).
Do not change dependencies, do not add features or fix bugs you notice (leave behaviour, including any bugs, exactly as it is).

Verify each patch beyond the test suite: build the CLI before and after (`cargo build -p zeep --offline`) and compare the generated output and exit status on every .wsdl/.xsd input under resources/ and zeep-lib/test-data/ (and a few inputs of your own that exercise the code you touched, including erroneous inputs) with `diff -r`. For patches to helpers_content.rs compare behaviour with a small probe if you can, otherwise reason carefully.

Deliverables under __OUT__/ : NN-short-name.diff (`git diff` against HEAD, one file per patch, numbered 01..07) and INDEX.md with, per patch, 2-4 lines: what was refactored, why behaviour is preserved, what you ran and saw. Restore the worktree (`git checkout -- . && git clean -fd`) between patches. Report a one-line summary per patch at the end.
'''

STYLES = {
    "Q": "Techniques for this set (one main technique per patch): modern-Rust idiom clean-ups of the kind `cargo clippy -W clippy::pedantic` and an edition-2024 migration suggest, applied consistently across a whole file each: (1) `let ... else`, let-chains (`if let Some(x) = a && cond`), `matches!`, `is_some_and` / `is_none_or`, `then_some`, `Option::zip`, `?` on `Option` in small helper fns; (2) `impl Trait` in argument position, `&[T]` instead of `&Vec<T>`, `impl AsRef<Path>`, `Self` in impls, elided lifetimes, `#[must_use]`, `const fn`, `#[derive(Default)]` with `#[default]` instead of hand-written impls; (3) iterator style: explicit loops -> `filter_map` / `flat_map` / `find_map` / `try_for_each` / `try_fold` / `extend` / `collect::<Result<Vec<_>,_>>()?` where the order of effects stays the same (and one patch the reverse direction: chains -> explicit loops with `continue` / labelled `break`); (4) string handling: `format!` with inline arguments, `write!` vs `push_str`, `strip_prefix` / `split_once` / `rsplit_once` / `char::is_ascii_*` instead of index arithmetic, `to_owned` / `to_string` / `into` / `String::from` swaps, `concat!` / raw strings for templates; (5) pattern matching: nested `match` -> tuple match, or-patterns, binding `@`, match guards <-> nested `if`, exhaustive matches instead of `_`; (6) module hygiene: `use` reorganisation, glob imports removed / introduced for an enum's variants, `pub(crate)` / `pub(super)` tightening, items reordered inside files, inherent helper methods moved next to their type; (7) the emitted helper module helpers_content.rs: the same kinds of clean-up inside the emitted code (it must stay valid for generated code that uses it: every public name and signature that generated code uses stays).",
    "R": "Techniques for this set (one main technique per patch): PERFORMANCE-MOTIVATED changes that keep behaviour: (1) avoid allocations: borrow instead of clone, `&str` keys, `Cow<'_, str>` for names that are usually unchanged by a sanitiser, `Rc<str>` / `Rc<Namespace>` sharing, `mem::take` / `mem::replace` instead of clone-and-clear; (2) pre-sizing and reuse: `Vec::with_capacity`, `String::with_capacity`, one scratch `String` reused across loop rounds (cleared each round), `extend` from iterators, `retain` instead of rebuild where order is kept; (3) caching within one call: compute a value once into a local / small struct and pass it down instead of recomputing it in callees (e.g. the result of a name sanitiser, a namespace lookup, `node.attribute(..)` reads) — only where the recomputation is pure; (4) lookup structure: linear `iter().find` over a small slice <-> a local `HashMap` / `BTreeMap` index built once when only key lookup happens (never iterate the hash map), `binary_search` over a sorted const table, `match` on `len()` / first byte before string compares; (5) output path: wrap nothing new around the sink, but batch several `writeln!` into one `write!` with a multi-line template, use `write_all` for constant text, `format_args!` forwarding helpers, `Display` adaptor structs (`struct Indent<'a>(&'a str)`, `struct Joined<'a, T>(&'a [T], &'a str)`) used inside templates; (6) control flow: early exits for the common case, loop fusion / fission where the loops' effects are independent, `Iterator::by_ref`, `peekable`, sentinel removal, tail recursion -> loop; (7) async helper code in helpers_content.rs: avoid an intermediate `String` where a borrowed value serves, reorder purely local computations around awaits without changing which awaits happen in which order, `async fn` <-> `fn -> impl Future` for a private helper.",
}


def sh(*a):
    subprocess.run(a, check=True)


def seeds(base, rnd, hard):
    props = [json.loads(l) for l in open("/verif/properties.jsonl")]
    os.makedirs(base, exist_ok=True)
    for p in props:
        json.dump(p, open(f"{base}/prop_{p['id']}.json", "w"), indent=1)
    ids = [p["id"] for p in props]
    # interleaved groups, rotated by the round number so that a group never sees the same combination twice
    groups = {g: [] for g in "abcd"}
    for i, pid in enumerate(ids):
        groups["abcd"[(i + rnd) % 4]].append(pid)
    existing = sorted(os.listdir("/verif/seeded"))
    for g, pl in groups.items():
        os.makedirs(f"{base}/{g}/out", exist_ok=True)
        earlier = "; ".join(f"{p}: " + ", ".join(re.sub(r"^C\d\d-(r\d-)?", "", s) for s in existing if s.startswith(p)) for p in pl)
        plist = ", ".join(f"{p} ({base}/prop_{p}.json)" for p in pl)
        t = (SEED_TPL.replace("__WT__", f"{base}/{g}/wt").replace("__OUT__", f"{base}/{g}/out").replace("__TARGET__", f"{base}/{g}/target")
             .replace("__PROPS__", plist).replace("__EARLIER__", earlier).replace("__HARD__", HARD[hard]))
        open(f"{base}/{g}/prompt.txt", "w").write(t)
        sh("git", "-C", "/repo", "worktree", "add", "-q", "--detach", f"{base}/{g}/wt", "HEAD")
        print(g, " ".join(pl))


def benign(base, style):
    os.makedirs(f"{base}/out", exist_ok=True)
    t = (BENIGN_TPL.replace("__WT__", f"{base}/wt").replace("__OUT__", f"{base}/out").replace("__TARGET__", f"{base}/target")
         .replace("__STYLE__", {**STYLES, **STYLES_EXTRA}[style]))
    open(f"{base}/prompt.txt", "w").write(t)
    sh("git", "-C", "/repo", "worktree", "add", "-q", "--detach", f"{base}/wt", "HEAD")
    print(base)


if __name__ == "__main__":
    if sys.argv[1] == "seeds":
        seeds(sys.argv[2], int(sys.argv[3]), sys.argv[4] if len(sys.argv) > 4 else "semantics")
    else:
        benign(sys.argv[2], sys.argv[3])
