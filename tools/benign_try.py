#!/usr/bin/env python3
"""usage: tools/benign_try.py <dir-with-*.diff> [-j N]
Applies each patch to its own scratch copy of /repo (never /repo itself), runs all 19 quick checks against the copy and reports
which checks are not silent. Behaviour-preserving patches must leave everything silent."""
import concurrent.futures as cf, glob, os, re, shutil, subprocess, sys, tempfile
V = os.path.dirname(os.path.dirname(os.path.abspath(__file__)))
ALL = [f"C{i:02d}" for i in range(1, 20)]


def one(patch):
    tmp = tempfile.mkdtemp(prefix="zeep-bn.")
    try:
        subprocess.run(["rsync", "-a", "--exclude", "target", "--exclude", ".git", "/repo/", tmp + "/"], check=True)
        r = subprocess.run(["git", "apply", "--directory", tmp, "--unsafe-paths", patch], cwd="/", capture_output=True, text=True)
        if r.returncode != 0:
            r = subprocess.run(["patch", "-p1", "-s", "-d", tmp, "-i", patch], capture_output=True, text=True)
            if r.returncode != 0:
                return patch, ["DOES NOT APPLY: " + (r.stderr or r.stdout)[:200]]
        noisy = []
        for pid in ALL:
            try:
                c = subprocess.run([os.path.join(V, "check"), pid, "quick"], cwd=V, env=dict(os.environ, VERIF_REPO=tmp), capture_output=True, timeout=int(os.environ.get("CHECK_TIMEOUT", "400")))
            except subprocess.TimeoutExpired:
                noisy.append(f"{pid} TIMEOUT")
                continue
            out = c.stdout.decode("utf-8", "replace")
            if c.returncode != 0:
                keys = re.findall(r"key: ([^\n]*)", out)
                infra = re.findall(r"INFRASTRUCTURE FAILURE: ([^\n]*)", out)
                noisy.append(f"{pid} rc={c.returncode}: {(keys or infra)[:4]}")
        return patch, noisy
    finally:
        shutil.rmtree(tmp, ignore_errors=True)


def main():
    d = sys.argv[1]
    j = int(sys.argv[sys.argv.index("-j") + 1]) if "-j" in sys.argv else 6
    patches = sorted(os.path.abspath(p) for p in glob.glob(os.path.join(d, "*.diff")))
    bad = 0
    with cf.ThreadPoolExecutor(j) as ex:
        for patch, noisy in ex.map(one, patches):
            print(("SILENT " if not noisy else "ALARM  ") + os.path.basename(patch), flush=True)
            for n in noisy:
                print("     ", n[:400])
            bad += bool(noisy)
    print(f"{bad} of {len(patches)} patches raise an alarm")
    return 1 if bad else 0


sys.exit(main())
