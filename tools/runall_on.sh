#!/bin/bash
# usage: tools/runall_on.sh <tree> [quick|thorough] - all 19 checks against another tree (VERIF_REPO), one line each + violation keys
TREE=$1; TIER=${2:-quick}
cd "$(dirname "$0")/.."
VERIF_REPO=$TREE ./check C12 $TIER >/dev/null 2>&1
for i in $(seq -w 1 19); do
  ( out=$(VERIF_REPO=$TREE ./check C$i $TIER 2>&1); rc=$?; if [ $rc -ne 0 ]; then echo "C$i rc=$rc"; echo "$out" | grep -a -E "^   [A-Za-z0-9]+ @|INFRA" | cut -c1-330 | head -6; fi ) &
done
wait
