#!/bin/bash
# usage: tools/rebase_patch.sh <patch.diff> [old-commit]  - re-bases a patch made against an earlier /repo HEAD onto the current HEAD
# (three-way, in a scratch worktree under /tmp that is removed afterwards); the patch file is rewritten in place when that succeeds.
P=$(realpath "$1"); OLD=${2:-c6c530a}
W=$(mktemp -d /tmp/zeep-rb.XXXXXX); rmdir $W
git -C /repo worktree add -q --detach $W $OLD || exit 3
cd $W
if ! git apply "$P" 2>/dev/null && ! patch -p1 -s < "$P"; then echo "DOES NOT APPLY TO $OLD: $P"; cd /; git -C /repo worktree remove --force $W; exit 3; fi
git add -A; git -c user.name=x -c user.email=x@x commit -qm patch
C=$(git rev-parse HEAD)
git checkout -q --detach $(git -C /repo rev-parse HEAD)
if git -c user.name=x -c user.email=x@x cherry-pick $C >/dev/null 2>&1; then
  git diff HEAD~1 HEAD > "$P"; echo "REBASED $P"; rc=0
else
  echo "CONFLICT $P"; git diff --name-only --diff-filter=U; rc=1
  if [ -n "$KEEP" ]; then echo "worktree kept at $W"; exit 1; fi
fi
cd /; git -C /repo worktree remove --force $W; git -C /repo worktree prune
exit $rc
