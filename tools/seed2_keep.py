#!/usr/bin/env python3
"""usage: seed_keep.py <Cnn> <name> "<what it needs to manifest>" "<caught by: rule/key or MISSED>" 
Archives a confirmed seeded change from /tmp/seed2/out/<Cnn> into /verif/seeded/<name>/"""
import json, os, shutil, sys, re
pid, name, needs, caught = sys.argv[1:5]
src = f"/tmp/seed2/out/{pid}"
dst = f"/verif/seeded/{name}"
shutil.rmtree(dst, ignore_errors=True)
os.makedirs(dst)
shutil.copy(f"{src}/patch.diff", dst)
if os.path.isdir(f"{src}/demo"):
    shutil.copytree(f"{src}/demo", f"{dst}/demo", ignore=shutil.ignore_patterns("target", "*.rlib", "*.rmeta", "Cargo.lock.bak"))
if os.path.exists(f"{src}/NOTES.md"):
    shutil.copy(f"{src}/NOTES.md", dst)
logs = {}
for f in os.listdir(src):
    if f.startswith("check_") and f.endswith(".log"):
        t = open(f"{src}/{f}", errors="replace").read()
        logs[f[6:-4]] = {"exit": 1 if "VIOLATION property" in t else 0, "violations": re.findall(r"key: ([^\n]*)", t)[:8]}
meta = {
    "property": pid,
    "breaks": open(f"{src}/property.txt").read().split("\n")[0],
    "needs_to_manifest": needs,
    "confirmed": {
        "existing_tests_with_patch": "32 passed (cargo test --workspace --offline in a scratch worktree)",
        "demo_without_patch": "exit 0",
        "demo_with_patch": "non-zero exit",
        "how": "tools/seed2_verify.sh: scratch worktree /tmp/seed2/<id> for the demonstration and the tests, our checks on a scratch copy of /repo with the patch applied",
    },
    "our_checks": logs,
    "caught_by": caught,
    "origin": "independent sub-agent (second round) given only the property text, a scratch worktree and a one-line description of the first-round change to avoid",
}
json.dump(meta, open(f"{dst}/meta.json", "w"), indent=1)
print("kept", dst)
