#!/bin/bash
# usage: seed_verify.sh <Cnn> [check-ids...]
# Confirms an independently written breaking change (patch + demo) in its scratch worktree, then runs our checks against it in /repo
# (git apply ... ; checks ; git checkout -- .).
ID=$1; shift
OUT=/tmp/seed/out/$ID; WT=/tmp/seed/$ID
export CARGO_TARGET_DIR=/tmp/seed/target-$ID CARGO_NET_OFFLINE=true
cd $WT && git checkout -q -- . && git clean -fdq && git checkout -q --detach $(git -C /repo rev-parse HEAD)
echo "== demo WITHOUT patch"; (bash $OUT/demo/run.sh > $OUT/verify_demo_without.log 2>&1); echo "exit=$?"
git -C $WT checkout -q -- . ; git -C $WT clean -fdq
echo "== apply patch"; git -C $WT apply $OUT/patch.diff || { echo "PATCH DOES NOT APPLY"; exit 3; }
echo "== existing tests WITH patch"; cargo test --workspace --offline --no-fail-fast 2>&1 | grep -E "^test result: .* [1-9][0-9]* passed|FAILED|^error" | head -3
echo "== demo WITH patch"; (bash $OUT/demo/run.sh > $OUT/verify_demo_with.log 2>&1); echo "exit=$?"
git -C $WT checkout -q -- . ; git -C $WT clean -fdq
echo "== our checks with the patch applied to /repo"
cd /repo && git status --short | head -2
git -C /repo apply $OUT/patch.diff || { echo "PATCH DOES NOT APPLY TO /repo"; exit 3; }
for c in ${@:-$ID}; do (cd /verif && ./check $c quick > /tmp/seed/out/$ID/check_$c.log 2>&1; echo "$c exit=$? $(grep -a -c '^VIOLATION' /tmp/seed/out/$ID/check_$c.log) violation(s)"; grep -a -E '^   R[0-9a]* @' /tmp/seed/out/$ID/check_$c.log | cut -c1-260 | head -4); done
git -C /repo checkout -- . ; git -C /repo clean -fdq -- zeep zeep-lib 2>/dev/null; git -C /repo status --short | head -3
