#!/usr/bin/env python3
"""Every archived seeded change (seeded/<name>/patch.diff) applied to its own scratch copy of /repo must make the property's
quick check exit 1. usage: tools/seeds_check.py [-j N]"""
import concurrent.futures as cf, glob, json, os, re, shutil, subprocess, sys, tempfile
V = os.path.dirname(os.path.dirname(os.path.abspath(__file__)))


def one(d):
    meta = json.load(open(os.path.join(d, "meta.json")))
    pid = meta["property"]
    tmp = tempfile.mkdtemp(prefix="zeep-sd.")
    try:
        subprocess.run(["rsync", "-a", "--exclude", "target", "--exclude", ".git", "/repo/", tmp + "/"], check=True)
        r = subprocess.run(["patch", "-p1", "-s", "-d", tmp, "-i", os.path.join(d, "patch.diff")], capture_output=True, text=True)
        if r.returncode != 0:
            return os.path.basename(d), pid, "STALE (patch does not apply)", ""
        c = subprocess.run([os.path.join(V, "check"), pid, "quick"], cwd=V, env=dict(os.environ, VERIF_REPO=tmp), capture_output=True)
        out = c.stdout.decode("utf-8", "replace")
        keys = re.findall(r"key: ([^\n]*)", out)
        return os.path.basename(d), pid, {0: "MISSED", 1: "CAUGHT", 2: "NOCOMPILE"}.get(c.returncode, str(c.returncode)), "; ".join(keys[:2])[:160]
    finally:
        shutil.rmtree(tmp, ignore_errors=True)


j = int(sys.argv[sys.argv.index("-j") + 1]) if "-j" in sys.argv else 6
bad = 0
with cf.ThreadPoolExecutor(j) as ex:
    for name, pid, status, keys in ex.map(one, sorted(glob.glob(os.path.join(V, "seeded", "*")))):
        print(status, pid, name, keys, flush=True)
        bad += status != "CAUGHT"
print(bad, "problem(s)")
sys.exit(1 if bad else 0)
