#!/usr/bin/env python3
"""Regenerates /verif/MANIFEST.json from the table below (kept next to the rules so it stays current)."""
import json
import os

HERE = os.path.dirname(os.path.dirname(os.path.abspath(__file__)))

TRUST = ("rustc nightly (type checker, MIR builder) as the source of the resolved program; std/reqwest/yaserde/roxmltree/Inflector "
         "behave as documented; the rule kit's closed idiom tables (anything outside them is reported, never assumed)")

CHECKS = {
    "C06": dict(technique="MIR path enumeration with atom classification (finite orderings) vs. XSD facet oracle",
                text="All acyclic CFG paths of every `impl CheckRestrictions` in the emitted helper are enumerated; each branch "
                     "condition must classify into a closed set of atoms (facet present, value/len ordered against bound, membership, "
                     "fallible conversion, delegation). Since the value is touched only through these atoms the path table is the "
                     "function's behaviour for all inputs; it is compared with the XSD oracle. Exhaustive over orderings, not sampled.",
                ref="5.C06"),
    "C07": dict(technique="MIR dominance (check-first) + output-grammar agreement of member/check templates + facet table extraction",
                text="Check-first is a dominance fact on the helper's coroutine MIR; per-member delegation is an agreement between the "
                     "member templates and check templates over the same collections in the extracted output grammar; the facet table "
                     "(XSD name -> model field -> emitted field) is compared row by row; numeric facet holes must be integer-typed.",
                ref="5.C07"),
    "C11": dict(technique="call-graph SCC + MIR dominance (mark before descent), keyed-access who-may-call rule",
                text="The import recursion is the SCC containing the parsing function; the processed-flag store must dominate every "
                     "intra-SCC call and a flag test must precede parsing; Files.map may only be accessed by key.",
                ref="5.C11"),
    "C12": dict(technique="zero-count MIR scans (hash iteration, ambient inputs) with positive controls + reset-on-entry dominance",
                text="Type-resolved inventory of every iterator creation over std hash containers and of ambient-input calls in all "
                     "non-test bodies; processed flags must be reset on entry of the public reader before any load.",
                ref="5.C12"),
    "C15": dict(technique="MIR result-flow classification of every sink write and writer call; zero-count Write::write",
                text="Every write_fmt/write_all/flush call and every call of a (transitively) writing function in all bodies, closures "
                     "included, has the consumer of its Result classified; only `?`/return are accepted.",
                ref="5.C15"),
    "C16": dict(technique="MIR call inventory, dominance (status gate) and def-use provenance on the helper coroutine",
                text="One post/send outside cycles, basic_auth exactly on the Some arm with ordered operands, a propagated "
                     "error_for_status dominating every Ok, Ok payload provenance from from_str(text().await?).",
                ref="5.C16"),
}

NA_REASON = "check under construction in this session (engines exist; rules not yet written); see DESIGN.md section 5"


def main():
    ids = [f"C{i:02d}" for i in range(1, 20)]
    checks = []
    for pid in ids:
        if pid not in CHECKS:
            continue
        c = CHECKS[pid]
        checks.append({
            "property_id": pid,
            "quick_cmd": f"./check {pid} quick",
            "thorough_cmd": f"./check {pid} thorough",
            "evidence_file": f"/verif/evidence/{pid}.json",
            "replay_cmd_template": f"./check {pid} --replay {{path}}",
            "engine": "factgen+rulekit",
            "level_claimed": {"category": c.get("level", "other"), "text": c["text"], "design_ref": c["ref"]},
            "level_note": c.get("note", TRUST),
            "technique": "static analysis: " + c["technique"],
        })
    m = {
        "version": 1,
        "setup_cmd": "./setup.sh",
        "hooks": {"guard": "zeep_verif",
                  "enable": "none: static analysis reads the unmodified sources; no hook commits exist",
                  "baseline_off_cmd": "cd /repo && cargo test --workspace --no-fail-fast --offline",
                  "source_commits": [], "add_only": True},
        "engines": [
            {"name": "factgen", "path": "/verif/engine/factgen", "serves_properties": ids,
             "kind_free_text": "rustc_private driver (nightly) dumping items, typed HIR, mir_built MIR and evaluated constants as JSON"},
            {"name": "rulekit", "path": "/verif/engine/rulekit", "serves_properties": ids,
             "kind_free_text": "Python rule primitives: CFG/dominators, origin tracing, result flow, provenance normal forms, output grammar, scanners"},
            {"name": "controls", "path": "/verif/engine/controls", "serves_properties": ["C12", "C13", "C15", "C17"],
             "kind_free_text": "positive-control crate for zero-count rules"},
        ],
        "checks": checks,
        "not_applicable": [{"property_id": p, "reason": NA_REASON} for p in ids if p not in CHECKS],
        "notes": "All checks are static (see DESIGN.md). Known findings: /verif/known_findings.json.",
    }
    with open(os.path.join(HERE, "MANIFEST.json"), "w") as f:
        json.dump(m, f, indent=1)


if __name__ == "__main__":
    main()
