#!/usr/bin/env python3
"""OUTDATED: MANIFEST.json is maintained by hand since the fifth pass (texts were extended there); do not regenerate it from this table without merging the texts back first."""
import json
import os

HERE = os.path.dirname(os.path.dirname(os.path.abspath(__file__)))

TRUST = ("rustc nightly (type checker, MIR builder) as the source of the resolved program; std/reqwest/yaserde/roxmltree/Inflector "
         "behave as documented; the rule kit's closed idiom tables (anything outside them is reported, never assumed)")

CHECKS = {
    "C01": dict(technique="type-checked prelude witness crate + helper byte identity + provenance normal-form agreement (definition/use spelling) + loop-dependence of item names on the extracted output grammar",
                text="The fixed part of every output (compiler-evaluated HEADER + helper text) is type-checked by rustc against exactly the six "
                     "documented crates; the emitted helper is byte-identical to the analysed helper module; every reference class (type, module, "
                     "envelope names) is spelled with the same sanitiser chain as its definition; every item emitted under loops has a name "
                     "depending on each loop element. Whole-output compilation for every schema is not claimed.", ref="5.C01"),
    "C02": dict(technique="table extraction from typed HIR + finite-domain evaluation of occurrence flags (exhaustive truth table) + loop/dispatch shape rules",
                text="The 27-row builtin table is extracted and compared; the occurrence flags and the Vec/Option/bare selection are evaluated "
                     "over the complete finite partition induced by the literals the code compares with (15k rows) against the schema oracle; "
                     "flattening loops have no early exit; dispatch sets and the two partitioning emission loops are checked.", ref="5.C02"),
    "C03": dict(technique="output-grammar parsing of every #[yaserde(..)] template with provenance of each value; prefix coverage",
                text="Per-field and per-struct (prefix, rename, attribute, namespaces) annotations, their provenance in the model, that each "
                     "namespaces entry takes prefix and URI from one Namespace value, and that every prefix members can carry is declared by the "
                     "struct. What yaserde does with the annotations is not decided.", ref="5.C03"),
    "C04": dict(technique="width table over the extracted builtin mapping + repeatable=>Vec rows of the finite-domain truth table + prefix coverage",
                text="Necessary conditions of lossless deserialization that are visible in the code's shape: bounded builtins fit their Rust "
                     "carrier, repeatable members are Vec, member prefixes are declared, simple types carry their text. The round trip itself "
                     "runs in yaserde and is not decided; unbounded integers/decimal are outside the width claim.", ref="5.C04"),
    "C05": dict(technique="output-grammar rules on envelope/method templates + typed-HIR provenance of the WSDL resolution chain",
                text="Envelope shape, Body/Header member provenance (element name, namespace, PascalCase struct), same unfiltered operation "
                     "collection in both emitters, one snake_case method per operation, literal method body forwarding to the checked helper, "
                     "keyed part/message lookups.", ref="5.C05"),
    "C06": dict(technique="MIR path enumeration with atom classification (finite orderings) vs. XSD facet oracle",
                text="All acyclic CFG paths of every `impl CheckRestrictions` in the emitted helper are enumerated; each branch "
                     "condition must classify into a closed set of atoms (facet present, value/len ordered against bound, membership, "
                     "fallible conversion, delegation). Since the value is touched only through these atoms the path table is the "
                     "function's behaviour for all inputs; it is compared with the XSD oracle. Exhaustive over orderings, not sampled.",
                ref="5.C06"),
    "C07": dict(technique="MIR dominance (check-first) + output-grammar agreement of member/check templates + facet table extraction",
                text="Check-first is a dominance fact on the helper's coroutine MIR; per-member delegation is an agreement between the "
                     "member templates and check templates over the same collections in the extracted output grammar; the facet table "
                     "(XSD name -> model field -> emitted field) is compared row by row; numeric facet holes must be integer-typed.",
                ref="5.C07"),
    "C08": dict(technique="MIR reachability/ordering of the base-field copy vs. own-member appends; constructor summaries",
                text="The base struct's field list is copied once, never after own members are appended, as whole Field values; extension "
                     "dispatch and base lookup are shared with C02/C09.", ref="5.C08"),
    "C09": dict(technique="finite-domain evaluation of the QName split + MIR use analysis of the namespace parameter of every by-name selection",
                text="QName split table; prefix table construction; every component selection must read the reference's namespace and the "
                     "component kind; imports may not rebind prefixes. Which component is chosen on given data is not decided - only whether "
                     "the selection can depend on namespace/kind.", ref="5.C09"),
    "C10": dict(technique="MIR dominance (uniqueness post-condition) + constructor summaries of Namespace + merge shape",
                text="Every returned abbreviation was tested unused in the registry of all namespaces; Namespaces are allocated once per URI "
                     "with module name from the same abbreviation; registry merges must reconcile by URI.", ref="5.C10"),
    "C11": dict(technique="call-graph SCC + MIR dominance (mark before descent), keyed-access who-may-call rule",
                text="The import recursion is the SCC containing the parsing function; the processed-flag store must dominate every "
                     "intra-SCC call and a flag test must precede parsing; Files.map may only be accessed by key.",
                ref="5.C11"),
    "C12": dict(technique="zero-count MIR scans (hash iteration, ambient inputs) with positive controls + reset-on-entry dominance",
                text="Type-resolved inventory of every iterator creation over std hash containers and of ambient-input calls in all "
                     "non-test bodies; processed flags must be reset on entry of the public reader before any load.",
                ref="5.C12"),
    "C13": dict(technique="MIR panic-family inventory with guard recognition and positive controls + recursion edge classification by data slices + loop shapes",
                text="No panic-family call or Assert terminator in non-test library code unless guarded; every call-graph cycle is classified "
                     "edge by edge (strict descent / same node / restart / guarded) from the backward slice of the XML-node argument; every CFG "
                     "cycle has a recognised terminating shape. Time bounds and dependency panics are not decided.", ref="5.C13"),
    "C14": dict(technique="lexical-context taint analysis over the output grammar (Rust lexer on templates) + keyword table exhaustiveness",
                text="Every hole that is not chosen among the generator's own literals is classified by the lexical context of its template "
                     "position and must carry a sanitiser adequate for it (Debug escaping in string literals, case normaliser + keyword table + "
                     "identifier guard in identifier positions, integer type in numeric positions, both line terminators split in comments); "
                     "the keyword table is evaluated on all 51 strict/reserved keywords.", ref="5.C14"),
    "C15": dict(technique="MIR result-flow classification of every sink write and writer call; zero-count Write::write",
                text="Every write_fmt/write_all/flush call and every call of a (transitively) writing function in all bodies, closures "
                     "included, has the consumer of its Result classified; only `?`/return are accepted.",
                ref="5.C15"),
    "C16": dict(technique="MIR call inventory, dominance (status gate) and def-use provenance on the helper coroutine",
                text="One post/send outside cycles, basic_auth exactly on the Some arm with ordered operands, a propagated "
                     "error_for_status dominating every Ok, Ok payload provenance from from_str(text().await?).",
                ref="5.C16"),
    "C17": dict(technique="MIR effect-ordering dominance in main + result-flow + def-use provenance of path and bytes + empty-parent guard",
                text="Every file-system effect on the output is dominated by the success of reading, read_xml and write_xml into memory; every "
                     "Result in main ends in expect/unwrap/?; output path and bytes are traced to their sources.", ref="5.C17"),
    "C18": dict(level="proof", technique="type-level witnesses (generic Send bounds) type-checked by rustc on the assembled prelude + closed member-type universe",
                text="Generic witness functions quantify over every request/response type and are discharged by the Rust type checker on a "
                     "crate assembled from the current helper; struct member types are closed over owned Send+Sync data by a rule on the "
                     "output grammar.", ref="5.C18",
                note="rustc's type checker and auto-trait rules; the six dependency crates as pinned; C01.R2 and C05.R5 (generated methods only forward to the helper)"),
    "C19": dict(technique="trait-method coverage from the compiler's associated-item tables + MIR forwarding-shape rule",
                text="Every trait method that a default body could supply is overridden for MultiRef<T>; each override is one call of the "
                     "same method on self.inner with unchanged parameters whose result is returned; clone is Arc::clone.", ref="5.C19"),
}

NA_REASON = "check under construction in this session (engines exist; rules not yet written); see DESIGN.md section 5"


def main():
    ids = [f"C{i:02d}" for i in range(1, 20)]
    checks = []
    for pid in ids:
        if pid not in CHECKS:
            continue
        c = CHECKS[pid]
        checks.append({
            "property_id": pid,
            "quick_cmd": f"./check {pid} quick",
            "thorough_cmd": f"./check {pid} thorough",
            "evidence_file": f"/verif/evidence/{pid}.json",
            "replay_cmd_template": f"./check {pid} --replay {{path}}",
            "engine": "factgen+rulekit",
            "level_claimed": {"category": c.get("level", "other"), "text": c["text"], "design_ref": c["ref"]},
            "level_note": c.get("note", TRUST),
            "technique": "static analysis: " + c["technique"],
        })
    m = {
        "version": 1,
        "setup_cmd": "./setup.sh",
        "hooks": {"guard": "zeep_verif",
                  "enable": "none: static analysis reads the unmodified sources; no hook commits exist",
                  "baseline_off_cmd": "cd /repo && cargo test --workspace --no-fail-fast --offline",
                  "source_commits": [], "add_only": True},
        "engines": [
            {"name": "factgen", "path": "/verif/engine/factgen", "serves_properties": ids,
             "kind_free_text": "rustc_private driver (nightly) dumping items, typed HIR, mir_built MIR and evaluated constants as JSON"},
            {"name": "rulekit", "path": "/verif/engine/rulekit", "serves_properties": ids,
             "kind_free_text": "Python rule primitives: CFG/dominators, origin tracing, result flow, provenance normal forms, output grammar, scanners"},
            {"name": "controls", "path": "/verif/engine/controls", "serves_properties": ["C12", "C13", "C15", "C17"],
             "kind_free_text": "positive-control crate for zero-count rules"},
        ],
        "checks": checks,
        "not_applicable": [{"property_id": p, "reason": NA_REASON} for p in ids if p not in CHECKS],
        "notes": "All checks are static (see DESIGN.md). Known findings: /verif/known_findings.json.",
    }
    with open(os.path.join(HERE, "MANIFEST.json"), "w") as f:
        json.dump(m, f, indent=1)


if __name__ == "__main__":
    main()
