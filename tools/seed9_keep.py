#!/usr/bin/env python3
"""usage: seed3_keep.py <group> <Cnn> <name> "<what it needs to manifest>" "<caught by: rule/key, or MISSED at first + what was added>"
Archives a confirmed round-9 seeded change from /tmp/sd9/<group>/out/<Cnn> into /verif/seeded/<name>/ (our checks are re-run on a
scratch copy first so that meta.json records what they report now)."""
import json, os, shutil, subprocess, sys, re, tempfile
g, pid, name, needs, caught = sys.argv[1:6]
src = f"/tmp/sd9/{g}/out/{pid}"
dst = f"/verif/seeded/{name}"
shutil.rmtree(dst, ignore_errors=True)
os.makedirs(dst)
shutil.copy(f"{src}/patch.diff", dst)
if os.path.isdir(f"{src}/demo"):
    shutil.copytree(f"{src}/demo", f"{dst}/demo", ignore=shutil.ignore_patterns("target", "*.rlib", "*.rmeta", "Cargo.lock.bak"))
if os.path.exists(f"{src}/NOTES.md"):
    shutil.copy(f"{src}/NOTES.md", dst)
tmp = tempfile.mkdtemp(prefix="zeep-s3k.")
subprocess.run(["rsync", "-a", "--exclude", "target", "--exclude", ".git", "/repo/", tmp + "/"], check=True)
subprocess.run(["patch", "-p1", "-s", "-d", tmp, "-i", f"{src}/patch.diff"], check=True)
r = subprocess.run(["/verif/check", pid, "quick"], cwd="/verif", env=dict(os.environ, VERIF_REPO=tmp), capture_output=True)
t = r.stdout.decode("utf-8", "replace")
shutil.rmtree(tmp, ignore_errors=True)
prop = json.load(open(f"/tmp/sd9/prop_{pid}.json"))
meta = {
    "property": pid,
    "breaks": prop["title"],
    "needs_to_manifest": needs,
    "confirmed": {
        "existing_tests_with_patch": "32 passed (cargo test --workspace --offline in a scratch worktree)",
        "demo_without_patch": "exit 0",
        "demo_with_patch": "non-zero exit",
        "how": "tools/seed9_verify.sh: the group's scratch worktree /tmp/sd9/<group>/wt for the demonstration and the tests, our checks on a scratch copy of /repo with the patch applied",
    },
    "our_checks": {pid: {"exit": r.returncode, "violations": re.findall(r"key: ([^\n]*)", t)[:8]}},
    "caught_by": caught,
    "origin": "independent sub-agent (ninth round: regressions that come in with well-meant feature work, tolerance fixes, new options, nicer generated code, performance fixes) given only the property texts, a scratch worktree and the names of the earlier changes to avoid",
}
json.dump(meta, open(f"{dst}/meta.json", "w"), indent=1)
print("kept", dst, "exit", r.returncode, meta["our_checks"][pid]["violations"][:2])
