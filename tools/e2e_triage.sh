#!/bin/bash
# Triage helper (NOT a check): generate code for the repository's sample schemas with the real binary and type-check it
# against the witness crate's six dependencies. Used to confirm findings/fixes by hand.
cd /repo && CARGO_TARGET_DIR=/tmp/demo-target cargo build --offline -q 2>/dev/null
mkdir -p /tmp/e2e
for f in "$@"; do
  n=$(basename $f | cut -d. -f1)
  /tmp/demo-target/debug/zeep -i $f -o /tmp/e2e/$n.rs 2>/tmp/e2e/$n.err; rc=$?
  W=/tmp/e2e/w_$n; mkdir -p $W
  if [ $rc -eq 0 ]; then
    /verif/witness/build.sh check $W /tmp/e2e/$n.rs; rc2=$?
    echo "$n gen=$rc compile=$rc2 $(python3 -c "
import json,collections
c=collections.Counter()
for l in open('$W/messages.json'):
    try: m=json.loads(l)
    except: continue
    if m.get('reason')=='compiler-message' and m['message']['level']=='error':
        c[(m['message'].get('code') or {}).get('code')]+=1
print(dict(c))")"
  else
    echo "$n gen=$rc $(grep -m1 'can not' /tmp/e2e/$n.err | cut -c1-150)"
  fi
done
