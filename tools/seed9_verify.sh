#!/bin/bash
# usage: seed3_verify.sh <group> <Cnn> [check ids...]   (round-3 seeded changes under /tmp/sd9/<group>/out/<Cnn>)
# Confirms the change in the group's scratch worktree (demo passes without, tests pass with, demo fails with the patch), then runs
# our checks against a scratch copy of /repo with the patch applied (never /repo itself).
G=$1; ID=$2; shift; shift
OUT=/tmp/sd9/$G/out/$ID; WT=/tmp/sd9/$G/wt
export CARGO_TARGET_DIR=/tmp/sd9/$G/target CARGO_NET_OFFLINE=true
cd $WT && git checkout -q -- . && git clean -fdq
echo "== demo WITHOUT patch"; (bash $OUT/demo/run.sh > $OUT/verify_demo_without.log 2>&1); echo "exit=$?"
git -C $WT checkout -q -- . ; git -C $WT clean -fdq
echo "== apply patch"; git -C $WT apply $OUT/patch.diff || { echo "PATCH DOES NOT APPLY"; exit 3; }
echo "== existing tests WITH patch"; cargo test --workspace --offline --no-fail-fast 2>&1 | grep -E "^test result: .* [1-9][0-9]* passed|FAILED|^error" | head -3
echo "== demo WITH patch"; (bash $OUT/demo/run.sh > $OUT/verify_demo_with.log 2>&1); echo "exit=$?"
git -C $WT checkout -q -- . ; git -C $WT clean -fdq
echo "== our checks on a scratch copy of /repo with the patch"
T=$(mktemp -d /tmp/zeep-s8.XXXXXX); rsync -a --exclude target --exclude .git /repo/ $T/
(cd $T && patch -p1 -s < $OUT/patch.diff) || { echo "PATCH DOES NOT APPLY TO /repo"; rm -rf $T; exit 3; }
for c in ${@:-$ID}; do (cd /verif && VERIF_REPO=$T ./check $c quick > $OUT/check_$c.log 2>&1; echo "$c exit=$? $(grep -a -c '^VIOLATION' $OUT/check_$c.log) violation(s)"; grep -a -E '^   [A-Za-z0-9]+ @' $OUT/check_$c.log | cut -c1-300 | head -4); done
rm -rf $T
