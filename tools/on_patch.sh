#!/bin/bash
# usage: tools/on_patch.sh <patch.diff> <Cnn>... : apply the patch to a scratch copy of /repo and run the named checks against it
P=$(realpath "$1"); shift
T=$(mktemp -d /tmp/zeep-op.XXXXXX)
rsync -a --exclude target --exclude .git /repo/ $T/
(cd $T && patch -p1 -s < "$P") || { echo "PATCH DOES NOT APPLY"; rm -rf $T; exit 3; }
cd "$(dirname "$0")/.."
for c in "$@"; do echo "== $c"; VERIF_REPO=$T ./check $c quick 2>&1 | grep -a -E "^   [A-Za-z0-9]+ @|obligations|INFRA|Traceback|Error" -A1 | cut -c1-${COLS:-420}; done
rm -rf $T
