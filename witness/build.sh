#!/bin/bash
# Assembles the witness crate from the CURRENT repo tree (HEADER constant as evaluated by the compiler + the helper
# source file + optional generated samples + the witness tail) and type-checks it with the six documented crates.
# usage: build.sh warm | check <out-dir> <lib.rs path>
set -u
HERE="$(cd "$(dirname "$0")" && pwd)"
REPO="${VERIF_REPO:-/repo}"
export CARGO_NET_OFFLINE=true
case "${1:-}" in
  warm)
    W="$HERE/../.cache/witness-work"
    mkdir -p "$W/src"
    cp "$HERE/prelude/Cargo.toml" "$W/Cargo.toml"
    cp "$REPO/Cargo.lock" "$W/Cargo.lock"
    echo "" > "$W/src/lib.rs"
    (cd "$W" && CARGO_TARGET_DIR="$HERE/../.cache/target-witness" cargo check --offline -q 2>&1 | tail -3)
    ;;
  check)
    W="$2"
    mkdir -p "$W/src"
    cp "$HERE/prelude/Cargo.toml" "$W/Cargo.toml"
    cp "$REPO/Cargo.lock" "$W/Cargo.lock"
    cp "$3" "$W/src/lib.rs"
    cd "$W" && CARGO_TARGET_DIR="$HERE/../.cache/target-witness" cargo check --offline --message-format=json 2>"$W/stderr.txt" >"$W/messages.json"
    exit $?
    ;;
  *) echo "usage: build.sh warm|check"; exit 2;;
esac
