
// ===== appended by /verif/witness (not emitted by zeep): type-level obligations ======================
#[allow(dead_code, unused)]
mod __zeep_verif_witness {
    use super::*;
    use yaserde::{YaDeserialize, YaSerialize};

    fn assert_send<T: Send>(_t: &T) {}
    fn assert_send_sync<T: Send + Sync>() {}

    // C18.R1: the helper futures are Send for every Send request type
    fn helper_future_is_send<YI, YO>(c: &reqwest::Client, req: YI)
    where
        YI: YaSerialize + restrictions::CheckRestrictions + Send,
        YO: YaDeserialize,
    {
        assert_send(&helpers::send_soap_request_using_client::<YI, YO, &str, &str>(c, "u", None, req));
    }
    fn helper_future_is_send_owned_credentials<YI, YO>(c: &reqwest::Client, req: YI)
    where
        YI: YaSerialize + restrictions::CheckRestrictions + Send,
        YO: YaDeserialize,
    {
        assert_send(&helpers::send_soap_request_using_client::<YI, YO, String, String>(c, "u", None, req));
    }
    fn convenience_future_is_send<YI, YO>(req: YI)
    where
        YI: YaSerialize + restrictions::CheckRestrictions + Send,
        YO: YaDeserialize,
    {
        assert_send(&helpers::send_soap_request::<YI, YO, String, String>("u", None, req));
    }

    // C18.R2 / C19.R4: MultiRef is Send + Sync for Send + Sync payloads and implements the forwarded traits generically
    fn multi_ref_send_sync<T: Send + Sync>() {
        assert_send_sync::<multi_ref::MultiRef<T>>();
    }
    fn multi_ref_traits<T>()
    where
        T: YaSerialize + YaDeserialize + restrictions::CheckRestrictions + Default + std::fmt::Debug,
    {
        fn needs<X: YaSerialize + YaDeserialize + restrictions::CheckRestrictions + Default + std::fmt::Debug>() {}
        needs::<multi_ref::MultiRef<T>>();
    }
    fn multi_ref_clone<T: Clone>() {
        fn needs<X: Clone>() {}
        needs::<multi_ref::MultiRef<T>>();
    }
    fn multi_ref_deref<T>(m: &multi_ref::MultiRef<T>) -> &T {
        &***m
    }

    // C18: error and result types cross threads
    fn error_is_send_sync() {
        assert_send_sync::<error::SoapError>();
    }

    // C06/C07: every carrier the generator can emit has a restriction check
    fn carriers_are_checkable() {
        fn needs<X: restrictions::CheckRestrictions>() {}
        needs::<i8>();
        needs::<u8>();
        needs::<i16>();
        needs::<u16>();
        needs::<i32>();
        needs::<u32>();
        needs::<i64>();
        needs::<u64>();
        needs::<f32>();
        needs::<f64>();
        needs::<bool>();
        needs::<String>();
        needs::<Option<String>>();
        needs::<Vec<String>>();
        needs::<Option<Vec<i32>>>();
    }
}
